// The third target set of gotr: methods over a record state, translated into terms of coq/Model/GoFrag3.v (set "buffer":
// buffer.go (*Buffer).consumerOffsets, get, commit, cleanupLogic - the arithmetic kernel of the Buffer).  Same conventions as
// main.go and pure.go: canonical names (p0.., v0..), go/parser only, anything outside the fragment is an error (exit 2).
//
// The receiver's struct type is read from the package's own declarations (all non-test .go files of -repo): a field of type
// int is an int component, []interface{} / []any a slice-of-values component, map[K]int a map component (K: the key type, any
// parameter of exactly that type is a key), context.Context a flag component of which only `b.f.Err()` may be read; every
// other field is opaque: `b.f.M()` without arguments is an effect (logged as "f.M"), `defer b.f.M()` a deferred effect,
// `b.f.G(args)` - G a field of function type of the struct f points to - a call of an oracle "f.G".
//
// Fragment: parameters of type int, bool, []int or the key type; results of type int, bool, []int, interface{}/any, error (a
// list of them: multi-value return); `x := e`, `x = e`, `x op= e`, `x++/x--`, `var x T [= e]` on int/bool/[]int/error/element
// locals; `v, ok := b.m[k]`; `b.m[k] = e`; `b.i = e`, `b.i op= e`, `b.i++`; `b.s = e`; `b.s[i] = e`; if/else with optional init;
// `for [init]; cond; [post] { body }` (no break/continue); `for _, v := range b.m { body }` (no store into a map inside);
// return e1, .., en; expressions over + - * comparisons && || ! unary -, integer and bool literals, nil (at the type its
// context gives it: element, error, []int), `b.i`, `b.s`, len(b.s), len(b.m), len(xs), `s[i]`, `s[k:]`, `b.c.Err()`,
// `err != nil` / `err == nil`, `b == nil`, `b.m == nil`, make([]int, 0[, n]), append(xs, e), fmt.Errorf(literal, pure args..) /
// errors.New(literal) (numbered in source order: the text is not translated), `b.method(args)` of a method translated earlier
// in the same set.  Integers are unbounded (as in the cleaners' embedding).
package main

import (
	"fmt"
	"go/ast"
	"go/parser"
	"go/token"
	"os"
	"path/filepath"
	"sort"
	"strconv"
	"strings"
)

type target3 struct {
	file string
	recv string
	name string
}

var sets3 = map[string][]target3{
	"buffer": {
		{"buffer.go", "Buffer", "consumerOffsets"},
		{"buffer.go", "Buffer", "get"},
		{"buffer.go", "Buffer", "commit"},
		{"buffer.go", "Buffer", "cleanupLogic"},
	},
}

type method3 struct {
	params []string // kinds
	result string   // kind
}

type pkg3 struct {
	fset  *token.FileSet
	files map[string]*ast.File // by base name
	types map[string]ast.Expr  // package-level type declarations
}

type tr3 struct {
	*tr
	pkg     *pkg3
	imports map[string]string
	recvTy  string
	fields  map[string]string // field -> "int" | "slice" | "map" | "ctx" | "opaque"
	ftypes  map[string]ast.Expr
	keyType string // printed key type of the (single) kind of map key
	results []string
	sites   []string
	methods map[string]method3
	inRange int
	canon   map[string]string // declared field name -> canonical name
}

func exprString(e ast.Expr) string {
	switch x := e.(type) {
	case *ast.Ident:
		return x.Name
	case *ast.StarExpr:
		return "*" + exprString(x.X)
	case *ast.SelectorExpr:
		return exprString(x.X) + "." + x.Sel.Name
	case *ast.ParenExpr:
		return exprString(x.X)
	case *ast.ArrayType:
		if x.Len == nil {
			return "[]" + exprString(x.Elt)
		}
	case *ast.InterfaceType:
		if x.Methods == nil || len(x.Methods.List) == 0 {
			return "interface{}"
		}
	case *ast.MapType:
		return "map[" + exprString(x.Key) + "]" + exprString(x.Value)
	}
	return fmt.Sprintf("<%T>", e)
}

func loadPkg3(repo string) *pkg3 {
	p := &pkg3{fset: token.NewFileSet(), files: map[string]*ast.File{}, types: map[string]ast.Expr{}}
	names, err := filepath.Glob(filepath.Join(repo, "*.go"))
	if err != nil || len(names) == 0 {
		fmt.Fprintf(os.Stderr, "gotr: no .go files in %s\n", repo)
		os.Exit(2)
	}
	sort.Strings(names)
	for _, n := range names {
		if strings.HasSuffix(n, "_test.go") {
			continue
		}
		f, err := parser.ParseFile(p.fset, n, nil, 0)
		if err != nil {
			fmt.Fprintln(os.Stderr, "gotr:", err)
			os.Exit(2)
		}
		p.files[filepath.Base(n)] = f
		for _, d := range f.Decls {
			gd, ok := d.(*ast.GenDecl)
			if !ok || gd.Tok != token.TYPE {
				continue
			}
			for _, sp := range gd.Specs {
				ts := sp.(*ast.TypeSpec)
				if ts.TypeParams != nil {
					continue
				}
				if _, dup := p.types[ts.Name.Name]; dup {
					fmt.Fprintf(os.Stderr, "gotr: type %s is declared twice\n", ts.Name.Name)
					os.Exit(2)
				}
				p.types[ts.Name.Name] = ts.Type
			}
		}
	}
	return p
}

// declared: is name a package-level type of the tree (which would hide a predeclared identifier)?
func (t *tr3) predeclared(name string) bool {
	_, hidden := t.pkg.types[name]
	return !hidden && !t.shadowed(name)
}

// typeKind3: the kind of a parameter / result / local type
func (t *tr3) typeKind3(e ast.Expr) string {
	switch x := e.(type) {
	case *ast.ParenExpr:
		return t.typeKind3(x.X)
	case *ast.Ident:
		switch x.Name {
		case "int", "bool", "error":
			if t.predeclared(x.Name) {
				return map[string]string{"int": "int", "bool": "bool", "error": "err"}[x.Name]
			}
		case "any":
			if t.predeclared("any") {
				return "elem"
			}
		}
	case *ast.InterfaceType:
		if x.Methods == nil || len(x.Methods.List) == 0 {
			return "elem"
		}
	case *ast.ArrayType:
		if x.Len == nil {
			switch t.typeKind3(x.Elt) {
			case "int":
				return "ints"
			case "elem":
				return "slice"
			}
		}
	}
	if t.keyType != "" && exprString(e) == t.keyType {
		return "key"
	}
	return ""
}

func (t *tr3) collectStruct(n ast.Node) {
	ty, ok := t.pkg.types[t.recvTy]
	st, isStruct := ty.(*ast.StructType)
	if !ok || !isStruct {
		t.fail(n, "type %s is not a struct declared in the package", t.recvTy)
	}
	t.fields = map[string]string{}
	t.ftypes = map[string]ast.Expr{}
	for _, f := range st.Fields.List {
		if len(f.Names) == 0 {
			t.fail(n, "type %s has an embedded field", t.recvTy)
		}
		kind := "opaque"
		switch x := f.Type.(type) {
		case *ast.Ident:
			if x.Name == "int" && t.predeclared("int") {
				kind = "int"
			}
		case *ast.ArrayType:
			if t.typeKind3(x) == "slice" {
				kind = "slice"
			}
		case *ast.MapType:
			if v, ok := x.Value.(*ast.Ident); ok && v.Name == "int" && t.predeclared("int") {
				kind = "map"
				k := exprString(x.Key)
				if t.keyType != "" && t.keyType != k {
					t.fail(n, "type %s has map fields with different key types", t.recvTy)
				}
				t.keyType = k
			}
		case *ast.SelectorExpr:
			if p, ok := x.X.(*ast.Ident); ok && t.imports[p.Name] == "context" && x.Sel.Name == "Context" {
				kind = "ctx"
			}
		}
		for _, nm := range f.Names {
			t.fields[nm.Name] = kind
			t.ftypes[nm.Name] = f.Type
		}
	}
	// Canonical field names (as for locals and parameters, so that renamings of unexported fields do not reach Coq): a field that
	// is the ONLY one of its kind (data kinds) or of its type (the lock, the condition variable, the cleaner configuration) is
	// given the name the hand-written side (Model/BufferSrc.v) uses for that role.
	want := map[string]string{"int": "offset", "slice": "buffer", "map": "consumers", "ctx": "ctx",
		"opaque:sync.RWMutex": "mutex", "opaque:*sync.Cond": "cond", "opaque:*CleanerConfig": "cleaner"}
	byRole := map[string][]string{}
	for _, f := range st.Fields.List {
		for _, nm := range f.Names {
			role := t.fields[nm.Name]
			if role == "opaque" {
				role = "opaque:" + exprString(f.Type)
			}
			byRole[role] = append(byRole[role], nm.Name)
		}
	}
	t.canon = map[string]string{}
	for role, names := range byRole {
		c, ok := want[role]
		if !ok || len(names) != 1 || names[0] == c {
			continue
		}
		if _, clash := t.fields[c]; clash {
			continue
		}
		t.canon[names[0]] = c
		t.fields[c], t.ftypes[c] = t.fields[names[0]], t.ftypes[names[0]]
		delete(t.fields, names[0])
		delete(t.ftypes, names[0])
	}
}

// recvField: is e `b.f` for the receiver b? returns the field name
func (t *tr3) recvField(e ast.Expr) (string, bool) {
	for {
		p, ok := e.(*ast.ParenExpr)
		if !ok {
			break
		}
		e = p.X
	}
	sel, ok := e.(*ast.SelectorExpr)
	if !ok {
		return "", false
	}
	if !t.isRecv(sel.X) {
		return "", false
	}
	if c, ok := t.canon[sel.Sel.Name]; ok {
		return c, true
	}
	return sel.Sel.Name, true
}

func (t *tr3) isRecv(e ast.Expr) bool {
	for {
		p, ok := e.(*ast.ParenExpr)
		if !ok {
			break
		}
		e = p.X
	}
	id, ok := e.(*ast.Ident)
	if !ok {
		return false
	}
	for i := len(t.scopes) - 1; i >= 0; i-- {
		if u, ok := t.scopes[i][id.Name]; ok {
			return u == "recv"
		}
	}
	return false
}

func (t *tr3) fieldKind(n ast.Node, f string) string {
	k, ok := t.fields[f]
	if !ok {
		t.fail(n, "%s has no field %s", t.recvTy, f)
	}
	return k
}

func isNil(e ast.Expr) bool {
	for {
		p, ok := e.(*ast.ParenExpr)
		if !ok {
			break
		}
		e = p.X
	}
	id, ok := e.(*ast.Ident)
	return ok && id.Name == "nil"
}

// oracleSig: the parameter kinds and result kind of `b.f.G`, G a func-typed field of the struct (pointed to by) field f
func (t *tr3) oracleSig(n ast.Node, f, g string) ([]string, string) {
	ty := t.ftypes[f]
	if s, ok := ty.(*ast.StarExpr); ok {
		ty = s.X
	}
	id, ok := ty.(*ast.Ident)
	if !ok {
		t.fail(n, "field %s is not of a struct type declared in the package", f)
	}
	st, ok := t.pkg.types[id.Name].(*ast.StructType)
	if !ok {
		t.fail(n, "field %s is not of a struct type declared in the package", f)
	}
	var gt ast.Expr
	for _, fl := range st.Fields.List {
		for _, nm := range fl.Names {
			if nm.Name == g {
				gt = fl.Type
			}
		}
	}
	if gt == nil {
		t.fail(n, "%s has no field %s", id.Name, g)
	}
	for i := 0; i < 4; i++ { // named function types
		if nid, ok := gt.(*ast.Ident); ok {
			if d, ok := t.pkg.types[nid.Name]; ok {
				gt = d
				continue
			}
		}
		break
	}
	ft, ok := gt.(*ast.FuncType)
	if !ok || ft.Results == nil || len(ft.Results.List) != 1 || len(ft.Results.List[0].Names) > 1 {
		t.fail(n, "%s.%s is not a function with one result", f, g)
	}
	var ps []string
	if ft.Params != nil {
		for _, p := range ft.Params.List {
			k := t.typeKind3(p.Type)
			if k == "" {
				t.fail(n, "%s.%s: parameter type", f, g)
			}
			c := len(p.Names)
			if c == 0 {
				c = 1
			}
			for i := 0; i < c; i++ {
				ps = append(ps, k)
			}
		}
	}
	r := t.typeKind3(ft.Results.List[0].Type)
	if r == "" {
		t.fail(n, "%s.%s: result type", f, g)
	}
	return ps, r
}

func (t *tr3) args3(n ast.Node, what string, args []ast.Expr, kinds []string) string {
	if len(args) != len(kinds) {
		t.fail(n, "%s: %d arguments for %d parameters", what, len(args), len(kinds))
	}
	var out []string
	for i, a := range args {
		s, k := t.expr3(a, kinds[i])
		if k != kinds[i] {
			t.fail(a, "%s: argument of kind %q for a parameter of kind %q", what, k, kinds[i])
		}
		out = append(out, s)
	}
	return "[" + strings.Join(out, "; ") + "]"
}

// expr3 translates e; want is the kind `nil` takes from its context ("" if none).  Returns the term and its kind:
// "int" | "bool" | "ints" | "elem" | "slice" | "err" | "key".
func (t *tr3) expr3(e ast.Expr, want string) (string, string) {
	switch x := e.(type) {
	case *ast.ParenExpr:
		return t.expr3(x.X, want)
	case *ast.Ident:
		switch x.Name {
		case "true", "false":
			if !t.predeclared(x.Name) {
				t.fail(x, "%s is redeclared", x.Name)
			}
			return "(ZBool " + x.Name + ")", "bool"
		case "nil":
			if !t.predeclared("nil") {
				t.fail(x, "nil is redeclared")
			}
			switch want {
			case "elem":
				return "ZNilElem", "elem"
			case "err":
				return "ZNilErr", "err"
			case "ints":
				return "ZNilInts", "ints"
			}
			t.fail(x, "nil in a context of kind %q", want)
		}
		u := t.resolve(x)
		k := t.kinds[u]
		if k == "recv" {
			t.fail(x, "the receiver used as a value")
		}
		return "(ZVar " + q(u) + ")", k
	case *ast.BasicLit:
		if x.Kind != token.INT || !plainDecimal(x.Value) {
			t.fail(x, "literal %s (only plain decimal integer literals)", x.Value)
		}
		return "(ZInt " + x.Value + ")", "int"
	case *ast.UnaryExpr:
		switch x.Op {
		case token.NOT:
			a, k := t.expr3(x.X, "")
			if k != "bool" {
				t.fail(x, "! of a non-bool")
			}
			return "(ZNot " + a + ")", "bool"
		case token.SUB:
			a, k := t.expr3(x.X, "")
			if k != "int" {
				t.fail(x, "unary - of a non-int")
			}
			return "(ZNeg " + a + ")", "int"
		case token.ADD:
			a, k := t.expr3(x.X, "")
			if k != "int" {
				t.fail(x, "unary + of a non-int")
			}
			return a, "int"
		}
		t.fail(x, "unary operator %s", x.Op)
	case *ast.BinaryExpr:
		if (x.Op == token.EQL || x.Op == token.NEQ) && (isNil(x.X) || isNil(x.Y)) {
			o := x.X
			if isNil(o) {
				o = x.Y
			}
			var isnil string // the term for `o == nil`
			if t.isRecv(o) {
				isnil = "ZRecvIsNil"
			} else if f, ok := t.recvField(o); ok && t.fieldKind(o, f) == "map" {
				isnil = "(ZMapIsNil " + q(f) + ")"
			} else {
				a, k := t.expr3(o, "")
				if k != "err" {
					t.fail(x, "comparison of a %s with nil", k)
				}
				if x.Op == token.NEQ {
					return "(ZErrNotNil " + a + ")", "bool"
				}
				return "(ZNot (ZErrNotNil " + a + "))", "bool"
			}
			if x.Op == token.EQL {
				return isnil, "bool"
			}
			return "(ZNot " + isnil + ")", "bool"
		}
		op, ok := binops[x.Op]
		if !ok {
			t.fail(x, "operator %s", x.Op)
		}
		a, ka := t.expr3(x.X, "")
		b, kb := t.expr3(x.Y, "")
		res := "bool"
		switch x.Op {
		case token.ADD, token.SUB, token.MUL:
			res = "int"
			if ka != "int" || kb != "int" {
				t.fail(x, "%s of a %s and a %s", x.Op, ka, kb)
			}
		case token.LAND, token.LOR:
			if ka != "bool" || kb != "bool" {
				t.fail(x, "%s of a %s and a %s", x.Op, ka, kb)
			}
		case token.EQL, token.NEQ:
			if ka != kb || (ka != "int" && ka != "bool") {
				t.fail(x, "%s of a %s and a %s", x.Op, ka, kb)
			}
		default:
			if ka != "int" || kb != "int" {
				t.fail(x, "%s of a %s and a %s", x.Op, ka, kb)
			}
		}
		return "(ZBin " + op + " " + a + " " + b + ")", res
	case *ast.SelectorExpr:
		if f, ok := t.recvField(x); ok {
			switch t.fieldKind(x, f) {
			case "int":
				return "(ZFieldInt " + q(f) + ")", "int"
			case "slice":
				return "(ZFieldSlice " + q(f) + ")", "slice"
			}
			t.fail(x, "field %s (kind %q) used as a value", f, t.fields[f])
		}
		t.fail(x, "selector")
	case *ast.IndexExpr:
		if f, ok := t.recvField(x.X); ok && t.fieldKind(x, f) == "map" {
			t.fail(x, "single-valued map lookup (only `v, ok := b.%s[k]`)", f)
		}
		a, ka := t.expr3(x.X, "")
		i, ki := t.expr3(x.Index, "")
		if ka != "slice" || ki != "int" {
			t.fail(x, "index of a %s by a %s", ka, ki)
		}
		return "(ZIndex " + a + " " + i + ")", "elem"
	case *ast.SliceExpr:
		if x.Slice3 || x.High != nil || x.Max != nil || x.Low == nil {
			t.fail(x, "slice expression (only s[k:])")
		}
		a, ka := t.expr3(x.X, "")
		k, kk := t.expr3(x.Low, "")
		if ka != "slice" || kk != "int" {
			t.fail(x, "slice of a %s from a %s", ka, kk)
		}
		return "(ZSliceFrom " + a + " " + k + ")", "slice"
	case *ast.CallExpr:
		if x.Ellipsis != token.NoPos {
			t.fail(x, "variadic call")
		}
		switch f := x.Fun.(type) {
		case *ast.Ident:
			if !t.predeclared(f.Name) {
				t.fail(x, "call of %s", f.Name)
			}
			switch f.Name {
			case "len":
				if len(x.Args) != 1 {
					t.fail(x, "len")
				}
				if fl, ok := t.recvField(x.Args[0]); ok && t.fieldKind(x, fl) == "map" {
					return "(ZLenMap " + q(fl) + ")", "int"
				}
				a, k := t.expr3(x.Args[0], "")
				if k != "slice" && k != "ints" {
					t.fail(x, "len of a %s", k)
				}
				return "(ZLen " + a + ")", "int"
			case "make":
				if len(x.Args) < 2 || len(x.Args) > 3 || t.typeKind3(x.Args[0]) != "ints" {
					t.fail(x, "make (only make([]int, 0[, n]))")
				}
				if bl, ok := x.Args[1].(*ast.BasicLit); !ok || bl.Value != "0" {
					t.fail(x, "make with a length other than the literal 0")
				}
				c := "(ZInt 0)"
				if len(x.Args) == 3 {
					var k string
					if c, k = t.expr3(x.Args[2], ""); k != "int" {
						t.fail(x, "make with a capacity of kind %q", k)
					}
				}
				return "(ZMakeInts " + c + ")", "ints"
			case "append":
				if len(x.Args) != 2 {
					t.fail(x, "append of %d arguments", len(x.Args))
				}
				a, ka := t.expr3(x.Args[0], "ints")
				b, kb := t.expr3(x.Args[1], "")
				if ka != "ints" || kb != "int" {
					t.fail(x, "append of a %s to a %s", kb, ka)
				}
				return "(ZAppend " + a + " " + b + ")", "ints"
			}
			t.fail(x, "call of %s", f.Name)
		case *ast.SelectorExpr:
			// fmt.Errorf / errors.New
			if p, ok := f.X.(*ast.Ident); ok && !t.shadowed(p.Name) &&
				(t.imports[p.Name] == "fmt" && f.Sel.Name == "Errorf" || t.imports[p.Name] == "errors" && f.Sel.Name == "New") {
				if len(x.Args) == 0 || (f.Sel.Name == "New" && len(x.Args) != 1) {
					t.fail(x, "%s.%s without a format", p.Name, f.Sel.Name)
				}
				bl, ok := x.Args[0].(*ast.BasicLit)
				if !ok || bl.Kind != token.STRING {
					t.fail(x, "%s.%s of something other than a string literal", p.Name, f.Sel.Name)
				}
				for _, a := range x.Args[1:] {
					t.pure3(a)
				}
				s, err := strconv.Unquote(bl.Value)
				if err != nil {
					t.fail(x, "string literal %s", bl.Value)
				}
				t.sites = append(t.sites, fmt.Sprintf("%d = '%s'", len(t.sites), commentSafe(s)))
				return fmt.Sprintf("(ZErrorf %d)", len(t.sites)-1), "err"
			}
			// b.method(args)
			if t.isRecv(f.X) {
				m, ok := t.methods[f.Sel.Name]
				if !ok {
					t.fail(x, "call of the method %s (not translated earlier in this set)", f.Sel.Name)
				}
				return "(ZCallRecv " + q(f.Sel.Name) + " " + t.args3(x, f.Sel.Name, x.Args, m.params) + ")", m.result
			}
			// b.f.G(args)
			if fl, ok := t.recvField(f.X); ok {
				switch t.fieldKind(x, fl) {
				case "ctx":
					if f.Sel.Name != "Err" || len(x.Args) != 0 {
						t.fail(x, "call on the context field %s (only .Err())", fl)
					}
					return "(ZCtxErr " + q(fl) + ")", "err"
				case "opaque":
					ps, r := t.oracleSig(x, fl, f.Sel.Name)
					return "(ZOracle " + q(fl+"."+f.Sel.Name) + " " + t.args3(x, fl+"."+f.Sel.Name, x.Args, ps) + ")", r
				}
			}
		}
		t.fail(x, "call")
	}
	t.fail(e, "expression %T", e)
	return "", ""
}

// pure3: an argument of fmt.Errorf: evaluated for the message only; it must not be able to have an effect or to panic
func (t *tr3) pure3(e ast.Expr) {
	switch x := e.(type) {
	case *ast.BasicLit:
	case *ast.Ident:
		if x.Name != "nil" && x.Name != "true" && x.Name != "false" {
			t.resolve(x)
		}
	case *ast.ParenExpr:
		t.pure3(x.X)
	case *ast.SelectorExpr:
		if _, ok := t.recvField(x); !ok {
			t.fail(e, "argument of an error constructor: selector")
		}
	case *ast.BinaryExpr:
		switch x.Op {
		case token.ADD, token.SUB, token.MUL, token.EQL, token.NEQ, token.LSS, token.LEQ, token.GTR, token.GEQ, token.LAND, token.LOR:
		default:
			t.fail(x, "operator %s in an argument of an error constructor", x.Op)
		}
		t.pure3(x.X)
		t.pure3(x.Y)
	case *ast.UnaryExpr:
		if x.Op != token.SUB && x.Op != token.ADD && x.Op != token.NOT {
			t.fail(x, "operator %s in an argument of an error constructor", x.Op)
		}
		t.pure3(x.X)
	case *ast.CallExpr:
		if id, ok := x.Fun.(*ast.Ident); ok && id.Name == "len" && t.predeclared("len") && len(x.Args) == 1 {
			t.pure3(x.Args[0])
			return
		}
		t.fail(e, "argument of an error constructor: call")
	default:
		t.fail(e, "argument of an error constructor: %T", e)
	}
}

// commentSafe: a string as it may appear inside a Coq comment (Coq lexes string literals and nested comments there)
func commentSafe(s string) string {
	var b strings.Builder
	for _, r := range s {
		switch {
		case r == '"':
			b.WriteByte('\'')
		case r == '*':
			b.WriteByte('#')
		case r < 0x20 || r > 0x7e:
			b.WriteByte('?')
		default:
			b.WriteRune(r)
		}
	}
	return b.String()
}

func seq3(ss []string) string {
	if len(ss) == 0 {
		return "TSkip"
	}
	out := ss[len(ss)-1]
	for i := len(ss) - 2; i >= 0; i-- {
		out = "(TSeq " + ss[i] + "\n  " + out + ")"
	}
	return out
}

func (t *tr3) block3(b *ast.BlockStmt) string {
	t.push()
	defer t.pop()
	var ss []string
	for _, s := range b.List {
		ss = append(ss, t.stmt3(s))
	}
	return seq3(ss)
}

var localKinds = map[string]bool{"int": true, "bool": true, "ints": true, "elem": true, "err": true, "slice": true}

// effectCall: `b.f.M()` on an opaque field, without arguments
func (t *tr3) effectCall(n ast.Node, call *ast.CallExpr) string {
	if call.Ellipsis != token.NoPos || len(call.Args) != 0 {
		t.fail(n, "call statement with arguments")
	}
	sel, ok := call.Fun.(*ast.SelectorExpr)
	if !ok {
		t.fail(n, "call statement")
	}
	f, ok := t.recvField(sel.X)
	if !ok || t.fieldKind(n, f) != "opaque" {
		t.fail(n, "call statement (only b.f.M() on a field f that holds no translated data)")
	}
	return q(f + "." + sel.Sel.Name)
}

var arithAssign = map[token.Token]string{token.ADD_ASSIGN: "BAdd", token.SUB_ASSIGN: "BSub", token.MUL_ASSIGN: "BMul"}

func (t *tr3) stmt3(s ast.Stmt) string {
	switch x := s.(type) {
	case *ast.EmptyStmt:
		return "TSkip"
	case *ast.BlockStmt:
		return t.block3(x)
	case *ast.AssignStmt:
		if len(x.Lhs) == 2 && len(x.Rhs) == 1 {
			// v, ok := b.m[k]
			ix, isIx := x.Rhs[0].(*ast.IndexExpr)
			if !isIx || x.Tok != token.DEFINE {
				t.fail(x, "two-valued assignment (only `v, ok := b.m[k]`)")
			}
			f, ok := t.recvField(ix.X)
			if !ok || t.fieldKind(x, f) != "map" {
				t.fail(x, "two-valued assignment (only `v, ok := b.m[k]`)")
			}
			k, kk := t.expr3(ix.Index, "")
			if kk != "key" {
				t.fail(x, "map lookup with a key of kind %q", kk)
			}
			var us [2]string
			for i, l := range x.Lhs {
				id, ok := l.(*ast.Ident)
				if !ok {
					t.fail(x, "assignment to a non-variable")
				}
				if id.Name != "_" && t.declaredHere(id.Name) {
					t.fail(x, "redeclaration of %s in the same scope", id.Name)
				}
				kind := [2]string{"int", "bool"}[i]
				if id.Name == "_" {
					us[i] = fmt.Sprintf("v%d", t.used["v"])
					t.used["v"]++
					t.names = append(t.names, us[i]+" = _")
				} else {
					us[i] = t.declare(id.Name, kind)
				}
			}
			return "(TMapGet " + q(us[0]) + " " + q(us[1]) + " " + q(f) + " " + k + ")"
		}
		if len(x.Lhs) != 1 || len(x.Rhs) != 1 {
			t.fail(x, "multiple assignment")
		}
		switch l := x.Lhs[0].(type) {
		case *ast.Ident:
			if l.Name == "_" {
				t.fail(x, "assignment to _")
			}
			switch x.Tok {
			case token.DEFINE:
				rhs, kind := t.expr3(x.Rhs[0], "") // evaluated in the scope before the declaration
				if !localKinds[kind] {
					t.fail(x, "declaration of a variable of kind %q", kind)
				}
				if t.declaredHere(l.Name) {
					t.fail(x, "redeclaration of %s in the same scope", l.Name)
				}
				return "(TAssign " + q(t.declare(l.Name, kind)) + " " + rhs + ")"
			case token.ASSIGN:
				u := t.resolve(l)
				k := t.kinds[u]
				if !localKinds[k] {
					t.fail(x, "assignment to %s of kind %q", l.Name, k)
				}
				rhs, kr := t.expr3(x.Rhs[0], k)
				if kr != k {
					t.fail(x, "assignment of a %s to a %s", kr, k)
				}
				return "(TAssign " + q(u) + " " + rhs + ")"
			}
			if op, ok := arithAssign[x.Tok]; ok {
				u := t.resolve(l)
				rhs, kr := t.expr3(x.Rhs[0], "")
				if t.kinds[u] != "int" || kr != "int" {
					t.fail(x, "op= on a non-int")
				}
				return "(TAssign " + q(u) + " (ZBin " + op + " (ZVar " + q(u) + ") " + rhs + "))"
			}
			t.fail(x, "assignment operator %s", x.Tok)
		case *ast.SelectorExpr:
			f, ok := t.recvField(l)
			if !ok {
				t.fail(x, "assignment to a selector that is not a field of the receiver")
			}
			switch t.fieldKind(x, f) {
			case "int":
				rhs, kr := t.expr3(x.Rhs[0], "")
				if kr != "int" {
					t.fail(x, "assignment of a %s to the int field %s", kr, f)
				}
				if x.Tok == token.ASSIGN {
					return "(TFieldSetInt " + q(f) + " " + rhs + ")"
				}
				if op, ok := arithAssign[x.Tok]; ok {
					return "(TFieldSetInt " + q(f) + " (ZBin " + op + " (ZFieldInt " + q(f) + ") " + rhs + "))"
				}
			case "slice":
				rhs, kr := t.expr3(x.Rhs[0], "")
				if kr != "slice" {
					t.fail(x, "assignment of a %s to the slice field %s", kr, f)
				}
				if x.Tok == token.ASSIGN {
					return "(TFieldSetSlice " + q(f) + " " + rhs + ")"
				}
			}
			t.fail(x, "assignment %s to the field %s (kind %q)", x.Tok, f, t.fields[f])
		case *ast.IndexExpr:
			f, ok := t.recvField(l.X)
			if !ok || x.Tok != token.ASSIGN {
				t.fail(x, "indexed assignment (only `b.f[i] = e`)")
			}
			switch t.fieldKind(x, f) {
			case "slice":
				i, ki := t.expr3(l.Index, "")
				v, kv := t.expr3(x.Rhs[0], "elem")
				if ki != "int" || kv != "elem" {
					t.fail(x, "b.%s[%s] = %s", f, ki, kv)
				}
				return "(TIndexSet " + q(f) + " " + i + " " + v + ")"
			case "map":
				if t.inRange > 0 {
					t.fail(x, "store into a map inside a range over a map")
				}
				k, kk := t.expr3(l.Index, "")
				v, kv := t.expr3(x.Rhs[0], "")
				if kk != "key" || kv != "int" {
					t.fail(x, "b.%s[%s] = %s", f, kk, kv)
				}
				return "(TMapSet " + q(f) + " " + k + " " + v + ")"
			}
			t.fail(x, "indexed assignment to the field %s (kind %q)", f, t.fields[f])
		}
		t.fail(x, "assignment to %T", x.Lhs[0])
	case *ast.IncDecStmt:
		op := "BAdd"
		if x.Tok == token.DEC {
			op = "BSub"
		}
		if f, ok := t.recvField(x.X); ok {
			if t.fieldKind(x, f) != "int" {
				t.fail(x, "++/-- on the field %s", f)
			}
			return "(TFieldSetInt " + q(f) + " (ZBin " + op + " (ZFieldInt " + q(f) + ") (ZInt 1)))"
		}
		id, ok := x.X.(*ast.Ident)
		if !ok {
			t.fail(x, "++/-- on a non-variable")
		}
		u := t.resolve(id)
		if t.kinds[u] != "int" {
			t.fail(x, "++/-- on a non-int")
		}
		return "(TAssign " + q(u) + " (ZBin " + op + " (ZVar " + q(u) + ") (ZInt 1)))"
	case *ast.DeclStmt:
		gd, ok := x.Decl.(*ast.GenDecl)
		if !ok || gd.Tok != token.VAR {
			t.fail(x, "declaration")
		}
		var ss []string
		for _, sp := range gd.Specs {
			vs := sp.(*ast.ValueSpec)
			if len(vs.Values) != 0 && len(vs.Values) != len(vs.Names) {
				t.fail(x, "var with a multi-valued initialiser")
			}
			declared := ""
			if vs.Type != nil {
				if declared = t.typeKind3(vs.Type); !localKinds[declared] {
					t.fail(x, "var type")
				}
			}
			for i, id := range vs.Names {
				var rhs, kind string
				if len(vs.Values) != 0 {
					rhs, kind = t.expr3(vs.Values[i], declared)
					if declared != "" && kind != declared {
						t.fail(x, "var of kind %s initialised with a %s", declared, kind)
					}
				} else {
					kind = declared
					rhs = map[string]string{"int": "(ZInt 0)", "bool": "(ZBool false)", "ints": "ZNilInts", "elem": "ZNilElem", "err": "ZNilErr"}[kind]
					if rhs == "" {
						t.fail(x, "var of kind %q without an initialiser", kind)
					}
				}
				if !localKinds[kind] {
					t.fail(x, "var of kind %q", kind)
				}
				if id.Name == "_" || t.declaredHere(id.Name) {
					t.fail(x, "redeclaration of %s", id.Name)
				}
				ss = append(ss, "(TAssign "+q(t.declare(id.Name, kind))+" "+rhs+")")
			}
		}
		return seq3(ss)
	case *ast.IfStmt:
		t.push() // the scope of the init statement
		defer t.pop()
		var pre []string
		if x.Init != nil {
			pre = append(pre, t.stmt3(x.Init))
		}
		cond, kc := t.expr3(x.Cond, "")
		if kc != "bool" {
			t.fail(x, "condition of kind %s", kc)
		}
		thn := t.block3(x.Body)
		els := "TSkip"
		switch e := x.Else.(type) {
		case nil:
		case *ast.BlockStmt:
			els = t.block3(e)
		case *ast.IfStmt:
			els = t.stmt3(e)
		default:
			t.fail(x, "else branch")
		}
		return seq3(append(pre, "(TIf "+cond+"\n  "+thn+"\n  "+els+")"))
	case *ast.ForStmt:
		t.push() // the scope of the init statement
		defer t.pop()
		var pre []string
		if x.Init != nil {
			pre = append(pre, t.stmt3(x.Init))
		}
		if x.Cond == nil {
			t.fail(x, "for without a condition")
		}
		cond, kc := t.expr3(x.Cond, "")
		if kc != "bool" {
			t.fail(x, "condition of kind %s", kc)
		}
		post := "TSkip"
		if x.Post != nil {
			post = t.stmt3(x.Post)
		}
		body := t.block3(x.Body)
		return seq3(append(pre, "(TFor "+cond+"\n  "+post+"\n  "+body+")"))
	case *ast.RangeStmt:
		f, ok := t.recvField(x.X)
		if !ok || t.fieldKind(x, f) != "map" {
			t.fail(x, "range over something other than a map field of the receiver")
		}
		if x.Tok != token.DEFINE || x.Value == nil {
			t.fail(x, "range form (only `for _, v := range b.m`)")
		}
		if k, ok := x.Key.(*ast.Ident); !ok || k.Name != "_" {
			t.fail(x, "range with a key variable")
		}
		v, ok := x.Value.(*ast.Ident)
		if !ok || v.Name == "_" {
			t.fail(x, "range value")
		}
		t.push()
		defer t.pop()
		u := t.declare(v.Name, "int")
		t.inRange++
		body := t.block3(x.Body)
		t.inRange--
		return "(TRangeMap " + q(u) + " " + q(f) + "\n  " + body + ")"
	case *ast.ReturnStmt:
		if len(x.Results) != len(t.results) {
			t.fail(x, "return of %d values from a function with %d results", len(x.Results), len(t.results))
		}
		var es []string
		for i, r := range x.Results {
			a, k := t.expr3(r, t.results[i])
			if k != t.results[i] {
				t.fail(r, "return of a %s as result %d of kind %s", k, i, t.results[i])
			}
			es = append(es, a)
		}
		return "(TReturn [" + strings.Join(es, "; ") + "])"
	case *ast.ExprStmt:
		call, ok := x.X.(*ast.CallExpr)
		if !ok {
			t.fail(x, "expression statement")
		}
		if isGosched(call) {
			return "TSkip"
		}
		return "(TEffect " + t.effectCall(x, call) + ")"
	case *ast.DeferStmt:
		return "(TDefer " + t.effectCall(x, x.Call) + ")"
	}
	t.fail(s, "statement %T", s)
	return ""
}

func fileImports(f *ast.File) map[string]string {
	m := map[string]string{}
	for _, im := range f.Imports {
		p, err := strconv.Unquote(im.Path.Value)
		if err != nil {
			continue
		}
		name := p[strings.LastIndex(p, "/")+1:]
		if im.Name != nil {
			name = im.Name.Name
		}
		m[name] = p
	}
	return m
}

// translate3 prints the targets of a set as [fundef3]s
func translate3(repo string, tgs []target3, b *strings.Builder) {
	pkg := loadPkg3(repo)
	methods := map[string]method3{}
	for _, tg := range tgs {
		// the method is looked for in every file of the package (it may have been moved out of the file it used to live in)
		var f *ast.File
		var fd *ast.FuncDecl
		n := 0
		var fnames []string
		for fn := range pkg.files {
			fnames = append(fnames, fn)
		}
		sort.Strings(fnames)
		for _, fn := range fnames {
			for _, d := range pkg.files[fn].Decls {
				if x, ok := d.(*ast.FuncDecl); ok && x.Name.Name == tg.name && x.Body != nil && x.Recv != nil && len(x.Recv.List) == 1 &&
					recvTypeName(x.Recv.List[0].Type) == tg.recv {
					fd, f = x, pkg.files[fn]
					n++
				}
			}
		}
		if n != 1 {
			fmt.Fprintf(os.Stderr, "gotr: %s: method (%s).%s is not declared exactly once\n", tg.file, tg.recv, tg.name)
			os.Exit(2)
		}
		t := &tr3{tr: &tr{fset: pkg.fset, used: map[string]int{}, kinds: map[string]string{}, known: map[string]bool{}},
			pkg: pkg, imports: fileImports(f), recvTy: tg.recv, methods: methods}
		if fd.Type.TypeParams != nil {
			t.fail(fd, "%s is generic", tg.name)
		}
		if _, ok := fd.Recv.List[0].Type.(*ast.StarExpr); !ok || len(fd.Recv.List[0].Names) != 1 || fd.Recv.List[0].Names[0].Name == "_" {
			t.fail(fd, "%s: the receiver must be a named pointer receiver", tg.name)
		}
		t.push()
		// the struct's fields are classified with the imports of the file that declares the struct
		for _, sf := range pkg.files {
			for _, d := range sf.Decls {
				if gd, ok := d.(*ast.GenDecl); ok && gd.Tok == token.TYPE {
					for _, sp := range gd.Specs {
						if sp.(*ast.TypeSpec).Name.Name == tg.recv {
							save := t.imports
							t.imports = fileImports(sf)
							t.collectStruct(fd)
							t.imports = save
						}
					}
				}
			}
		}
		if t.fields == nil {
			t.fail(fd, "type %s is not declared in the package", tg.recv)
		}
		recv := fd.Recv.List[0].Names[0].Name
		t.scopes[0][recv] = "recv"
		t.kinds["recv"] = "recv"
		t.names = append(t.names, "receiver = "+recv)
		t.push()
		// parameters
		var ps, pkinds []string
		t.inParams = true
		if fd.Type.Params != nil {
			for _, fl := range fd.Type.Params.List {
				k := t.typeKind3(fl.Type)
				if k != "int" && k != "bool" && k != "ints" && k != "key" {
					t.fail(fl, "parameter type")
				}
				if len(fl.Names) == 0 {
					t.fail(fl, "unnamed parameter")
				}
				for _, nm := range fl.Names {
					if nm.Name == "_" {
						t.fail(fl, "blank parameter")
					}
					ps = append(ps, t.declare(nm.Name, k))
					pkinds = append(pkinds, k)
				}
			}
		}
		t.inParams = false
		if fd.Type.Results != nil {
			for _, fl := range fd.Type.Results.List {
				if len(fl.Names) != 0 {
					t.fail(fl, "named result")
				}
				k := t.typeKind3(fl.Type)
				if k != "int" && k != "bool" && k != "ints" && k != "elem" && k != "err" {
					t.fail(fl, "result type")
				}
				t.results = append(t.results, k)
			}
		}
		code := t.block3(fd.Body)
		var fl []string
		for name, k := range t.fields {
			if k != "opaque" {
				fl = append(fl, name+": "+k)
			}
		}
		sort.Strings(fl)
		sites := "none"
		if len(t.sites) != 0 {
			sites = strings.Join(t.sites, ", ")
		}
		fmt.Fprintf(b, "(* (%s).%s: %s; results: [%s]; fields: %s; error sites: %s *)\n", tg.recv, tg.name, strings.Join(t.names, ", "),
			strings.Join(t.results, ", "), strings.Join(fl, ", "), sites)
		fmt.Fprintf(b, "Definition %s_def : fundef3 := {|\n  fname3 := %s;\n  params3 := [%s];\n  body3 :=\n  %s\n|}.\n\n",
			tg.name, q(tg.name), strings.Join(mapq(ps), "; "), code)
		if len(t.results) == 1 {
			methods[tg.name] = method3{params: pkinds, result: t.results[0]}
		}
	}
}
