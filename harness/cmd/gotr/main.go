// gotr translates selected functions of the library, written in a small integer fragment of Go, into terms of the deep
// embedding coq/Model/GoFrag.v.  It is run on every check of C03 against the CURRENT source; the theorems of
// coq/Proofs/CleanerGen.v are then re-proved about what it printed.  Anything outside the fragment is an error (exit 2):
// the translator never guesses.
//
// usage: gotr [-set cleaners|sanity|retry|buffer] -repo DIR -out FILE
//
// -set sanity / -set retry: see pure.go (straight-line functions over fixed-width integers -> coq/Model/GoFrag2.v).
// -set buffer: see buffer.go (methods of Buffer over the receiver's fields as a record state -> coq/Model/GoFrag3.v).
//
// Targets of the default set "cleaners" (fixed): bigbuff.go DefaultCleaner; bigbuff.go FixedBufferCleaner (a function whose body is exactly
// `return func(...) int {...}`: translated as one function over the outer followed by the inner parameters).
//
// Fragment: parameters of type int, bool, []int, or a func type (only compared with nil and called for effect);
// `x := e`, `x = e`, `x op= e`, `x++/x--`, `var x T [= e]`, if/else (with optional init), `for _, x := range xs`, return e,
// continue, break (unlabelled), a call statement of a func-typed parameter whose arguments are pure (built from
// identifiers, literals, composite literals, selectors on them and arithmetic); expressions over + - * comparisons && || !
// unary -, len(), the builtins min/max on ints, integer and bool literals, nil, and calls of previously translated functions.
//
// Scoping: every declaration is given a fresh canonical name (p0.. for parameters, v0.. for locals in order of
// declaration), so the embedding's environment is flat and renaming a variable does not change the output.
package main

import (
	"flag"
	"fmt"
	"go/ast"
	"go/parser"
	"go/token"
	"os"
	"path/filepath"
	"sort"
	"strings"
)

type target struct {
	file    string
	name    string
	closure bool
}

var targets = []target{
	{"bigbuff.go", "DefaultCleaner", false},
	{"bigbuff.go", "FixedBufferCleaner", true},
}

type tr struct {
	fset     *token.FileSet
	scopes   []map[string]string // source name -> unique name
	used     map[string]int
	kinds    map[string]string // unique name -> "int" | "bool" | "list" | "func"
	known    map[string]bool   // previously translated functions
	inLoop   int
	inParams bool
	names    []string
}

func (t *tr) fail(n ast.Node, format string, a ...interface{}) {
	pos := t.fset.Position(n.Pos())
	fmt.Fprintf(os.Stderr, "gotr: %s:%d: outside the translated fragment: %s\n", filepath.Base(pos.Filename), pos.Line, fmt.Sprintf(format, a...))
	os.Exit(2)
}

func (t *tr) push() { t.scopes = append(t.scopes, map[string]string{}) }
func (t *tr) pop()  { t.scopes = t.scopes[:len(t.scopes)-1] }

// declare gives every declaration a canonical name (parameters p0, p1, ...; locals and loop variables v0, v1, ... in
// order of declaration), so that renaming a variable in the source does not change the translation
func (t *tr) declare(name, kind string) string {
	var u string
	if t.inParams {
		u = fmt.Sprintf("p%d", t.used["p"])
		t.used["p"]++
	} else {
		u = fmt.Sprintf("v%d", t.used["v"])
		t.used["v"]++
	}
	t.scopes[len(t.scopes)-1][name] = u
	t.kinds[u] = kind
	t.names = append(t.names, u+" = "+name)
	return u
}

func (t *tr) resolve(id *ast.Ident) string {
	for i := len(t.scopes) - 1; i >= 0; i-- {
		if u, ok := t.scopes[i][id.Name]; ok {
			return u
		}
	}
	t.fail(id, "identifier %q is not a parameter or local variable", id.Name)
	return ""
}

func (t *tr) declaredHere(name string) bool {
	_, ok := t.scopes[len(t.scopes)-1][name]
	return ok
}

func typeKind(e ast.Expr) string {
	switch x := e.(type) {
	case *ast.Ident:
		switch x.Name {
		case "int":
			return "int"
		case "bool":
			return "bool"
		}
	case *ast.ArrayType:
		if x.Len == nil {
			if id, ok := x.Elt.(*ast.Ident); ok && id.Name == "int" {
				return "list"
			}
		}
	case *ast.FuncType:
		return "func"
	}
	return ""
}

func q(s string) string { return `"` + s + `"` }

// ---- expressions --------------------------------------------------------------------------------------------------

var binops = map[token.Token]string{
	token.ADD: "BAdd", token.SUB: "BSub", token.MUL: "BMul",
	token.LSS: "BLt", token.LEQ: "BLe", token.GTR: "BGt", token.GEQ: "BGe", token.EQL: "BEq", token.NEQ: "BNe",
	token.LAND: "BAnd", token.LOR: "BOr",
}

func (t *tr) expr(e ast.Expr) string {
	switch x := e.(type) {
	case *ast.ParenExpr:
		return t.expr(x.X)
	case *ast.Ident:
		switch x.Name {
		case "true":
			return "(EBool true)"
		case "false":
			return "(EBool false)"
		case "nil":
			return "ENil"
		}
		return "(EVar " + q(t.resolve(x)) + ")"
	case *ast.BasicLit:
		if x.Kind != token.INT {
			t.fail(x, "literal %s", x.Value)
		}
		v := x.Value
		if strings.HasPrefix(v, "0") && len(v) > 1 || strings.ContainsAny(v, "_xXbBoO") {
			t.fail(x, "integer literal %s (only plain decimal literals)", v)
		}
		return "(EInt " + v + ")"
	case *ast.BinaryExpr:
		op, ok := binops[x.Op]
		if !ok {
			t.fail(x, "operator %s", x.Op)
		}
		return "(EBin " + op + " " + t.expr(x.X) + " " + t.expr(x.Y) + ")"
	case *ast.UnaryExpr:
		switch x.Op {
		case token.NOT:
			return "(ENot " + t.expr(x.X) + ")"
		case token.SUB:
			return "(ENeg " + t.expr(x.X) + ")"
		case token.ADD:
			return t.expr(x.X)
		}
		t.fail(x, "unary operator %s", x.Op)
	case *ast.CallExpr:
		id, ok := x.Fun.(*ast.Ident)
		if !ok || x.Ellipsis != token.NoPos {
			t.fail(x, "call of a non-identifier")
		}
		if id.Name == "len" && len(x.Args) == 1 {
			if t.shadowed("len") {
				t.fail(x, "len is shadowed")
			}
			return "(ELen " + t.expr(x.Args[0]) + ")"
		}
		if (id.Name == "min" || id.Name == "max") && len(x.Args) >= 2 && !t.shadowed(id.Name) {
			// the builtins (Go 1.21): left fold over the arguments
			op := map[string]string{"min": "BMin", "max": "BMax"}[id.Name]
			for _, a := range x.Args {
				if t.kindOf(a) != "int" {
					t.fail(x, "%s of non-int arguments", id.Name)
				}
			}
			acc := t.expr(x.Args[0])
			for _, a := range x.Args[1:] {
				acc = "(EBin " + op + " " + acc + " " + t.expr(a) + ")"
			}
			return acc
		}
		if !t.known[id.Name] || t.shadowed(id.Name) {
			t.fail(x, "call of %s (not a previously translated function)", id.Name)
		}
		var args []string
		for _, a := range x.Args {
			args = append(args, t.expr(a))
		}
		return "(ECall " + q(id.Name) + " [" + strings.Join(args, "; ") + "])"
	}
	t.fail(e, "expression %T", e)
	return ""
}

func (t *tr) shadowed(name string) bool {
	for i := len(t.scopes) - 1; i >= 0; i-- {
		if _, ok := t.scopes[i][name]; ok {
			return true
		}
	}
	return false
}

// pure: an argument of an effect-only call; it may mention anything that cannot have an effect or fail
func (t *tr) pure(e ast.Expr) {
	switch x := e.(type) {
	case *ast.Ident, *ast.BasicLit:
	case *ast.ParenExpr:
		t.pure(x.X)
	case *ast.SelectorExpr:
		t.pure(x.X)
	case *ast.BinaryExpr:
		if x.Op == token.QUO || x.Op == token.REM || x.Op == token.SHL || x.Op == token.SHR {
			t.fail(x, "operator %s in an effect call argument (may panic)", x.Op)
		}
		t.pure(x.X)
		t.pure(x.Y)
	case *ast.UnaryExpr:
		if x.Op == token.ARROW {
			t.fail(x, "channel receive")
		}
		t.pure(x.X)
	case *ast.CompositeLit:
		for _, el := range x.Elts {
			if kv, ok := el.(*ast.KeyValueExpr); ok {
				t.pure(kv.Value)
			} else {
				t.pure(el)
			}
		}
	default:
		t.fail(e, "argument of an effect call: %T", e)
	}
}

// ---- statements ---------------------------------------------------------------------------------------------------

func seq(ss []string) string {
	if len(ss) == 0 {
		return "SSkip"
	}
	out := ss[len(ss)-1]
	for i := len(ss) - 2; i >= 0; i-- {
		out = "(SSeq " + ss[i] + "\n  " + out + ")"
	}
	return out
}

func (t *tr) block(b *ast.BlockStmt) string {
	t.push()
	defer t.pop()
	var ss []string
	for _, s := range b.List {
		ss = append(ss, t.stmt(s))
	}
	return seq(ss)
}

func (t *tr) kindOf(e ast.Expr) string {
	switch x := e.(type) {
	case *ast.ParenExpr:
		return t.kindOf(x.X)
	case *ast.Ident:
		if x.Name == "true" || x.Name == "false" {
			return "bool"
		}
		return t.kinds[t.resolve(x)]
	case *ast.BasicLit:
		return "int"
	case *ast.BinaryExpr:
		switch x.Op {
		case token.ADD, token.SUB, token.MUL:
			return "int"
		}
		return "bool"
	case *ast.UnaryExpr:
		if x.Op == token.NOT {
			return "bool"
		}
		return "int"
	case *ast.CallExpr:
		return "int"
	}
	return ""
}

func (t *tr) stmt(s ast.Stmt) string {
	switch x := s.(type) {
	case *ast.EmptyStmt:
		return "SSkip"
	case *ast.BlockStmt:
		return t.block(x)
	case *ast.AssignStmt:
		if len(x.Lhs) != 1 || len(x.Rhs) != 1 {
			t.fail(x, "multiple assignment")
		}
		id, ok := x.Lhs[0].(*ast.Ident)
		if !ok || id.Name == "_" {
			t.fail(x, "assignment to a non-variable")
		}
		switch x.Tok {
		case token.DEFINE:
			rhs := t.expr(x.Rhs[0]) // evaluated in the scope before the declaration
			kind := t.kindOf(x.Rhs[0])
			if kind != "int" && kind != "bool" {
				t.fail(x, "declaration of a variable of kind %q", kind)
			}
			if t.declaredHere(id.Name) {
				t.fail(x, "redeclaration of %s in the same scope", id.Name)
			}
			return "(SAssign " + q(t.declare(id.Name, kind)) + " " + rhs + ")"
		case token.ASSIGN:
			u := t.resolve(id)
			if k := t.kinds[u]; k != "int" && k != "bool" {
				t.fail(x, "assignment to %s of kind %q", id.Name, k)
			}
			return "(SAssign " + q(u) + " " + t.expr(x.Rhs[0]) + ")"
		case token.ADD_ASSIGN, token.SUB_ASSIGN, token.MUL_ASSIGN:
			u := t.resolve(id)
			if t.kinds[u] != "int" {
				t.fail(x, "op= on a non-int")
			}
			op := map[token.Token]string{token.ADD_ASSIGN: "BAdd", token.SUB_ASSIGN: "BSub", token.MUL_ASSIGN: "BMul"}[x.Tok]
			return "(SAssign " + q(u) + " (EBin " + op + " (EVar " + q(u) + ") " + t.expr(x.Rhs[0]) + "))"
		}
		t.fail(x, "assignment operator %s", x.Tok)
	case *ast.IncDecStmt:
		id, ok := x.X.(*ast.Ident)
		if !ok {
			t.fail(x, "++/-- on a non-variable")
		}
		u := t.resolve(id)
		if t.kinds[u] != "int" {
			t.fail(x, "++/-- on a non-int")
		}
		op := "BAdd"
		if x.Tok == token.DEC {
			op = "BSub"
		}
		return "(SAssign " + q(u) + " (EBin " + op + " (EVar " + q(u) + ") (EInt 1)))"
	case *ast.DeclStmt:
		gd, ok := x.Decl.(*ast.GenDecl)
		if !ok || gd.Tok != token.VAR {
			t.fail(x, "declaration")
		}
		var ss []string
		for _, sp := range gd.Specs {
			vs := sp.(*ast.ValueSpec)
			if len(vs.Values) != 0 && len(vs.Values) != len(vs.Names) {
				t.fail(x, "var with a multi-valued initialiser")
			}
			for i, id := range vs.Names {
				var rhs, kind string
				if len(vs.Values) != 0 {
					rhs, kind = t.expr(vs.Values[i]), t.kindOf(vs.Values[i])
					if vs.Type != nil && typeKind(vs.Type) != kind {
						t.fail(x, "var type")
					}
				} else {
					kind = typeKind(vs.Type)
					rhs = map[string]string{"int": "(EInt 0)", "bool": "(EBool false)"}[kind]
				}
				if kind != "int" && kind != "bool" {
					t.fail(x, "var of kind %q", kind)
				}
				if t.declaredHere(id.Name) {
					t.fail(x, "redeclaration of %s", id.Name)
				}
				ss = append(ss, "(SAssign "+q(t.declare(id.Name, kind))+" "+rhs+")")
			}
		}
		return seq(ss)
	case *ast.IfStmt:
		t.push() // the scope of the init statement
		defer t.pop()
		var pre []string
		if x.Init != nil {
			pre = append(pre, t.stmt(x.Init))
		}
		// `if f != nil { f(pure...) }`: an effect-only call of a func-typed parameter
		cond := t.expr(x.Cond)
		thn := t.block(x.Body)
		els := "SSkip"
		switch e := x.Else.(type) {
		case nil:
		case *ast.BlockStmt:
			els = t.block(e)
		case *ast.IfStmt:
			els = t.stmt(e)
		default:
			t.fail(x, "else branch")
		}
		return seq(append(pre, "(SIf "+cond+"\n  "+thn+"\n  "+els+")"))
	case *ast.RangeStmt:
		if x.Tok != token.DEFINE || x.Value == nil {
			t.fail(x, "range form (only `for _, v := range xs`)")
		}
		if k, ok := x.Key.(*ast.Ident); !ok || k.Name != "_" {
			t.fail(x, "range with an index variable")
		}
		v, ok := x.Value.(*ast.Ident)
		if !ok || v.Name == "_" {
			t.fail(x, "range value")
		}
		xs := t.expr(x.X)
		if id, ok := x.X.(*ast.Ident); !ok || t.kinds[t.resolve(id)] != "list" {
			t.fail(x, "range over something other than a []int variable")
		}
		t.push()
		defer t.pop()
		u := t.declare(v.Name, "int")
		t.inLoop++
		body := t.block(x.Body)
		t.inLoop--
		return "(SRange " + q(u) + " " + xs + "\n  " + body + ")"
	case *ast.ReturnStmt:
		if len(x.Results) != 1 {
			t.fail(x, "return of %d values", len(x.Results))
		}
		return "(SReturn " + t.expr(x.Results[0]) + ")"
	case *ast.BranchStmt:
		if x.Label != nil || t.inLoop == 0 {
			t.fail(x, "branch statement")
		}
		switch x.Tok {
		case token.CONTINUE:
			return "SContinue"
		case token.BREAK:
			return "SBreak"
		}
		t.fail(x, "branch %s", x.Tok)
	case *ast.ExprStmt:
		call, ok := x.X.(*ast.CallExpr)
		if !ok {
			t.fail(x, "expression statement")
		}
		if isGosched(call) {
			return "SSkip"
		}
		id, ok := call.Fun.(*ast.Ident)
		if !ok {
			t.fail(x, "call statement of a non-identifier")
		}
		u := t.resolve(id)
		if t.kinds[u] != "func" {
			t.fail(x, "call statement of %s, which is not a func-typed parameter", id.Name)
		}
		for _, a := range call.Args {
			t.pure(a)
		}
		return "(SEffect " + q(u) + ")"
	}
	t.fail(s, "statement %T", s)
	return ""
}

// ---- functions ----------------------------------------------------------------------------------------------------

func (t *tr) params(fl *ast.FieldList) []string {
	t.inParams = true
	defer func() { t.inParams = false }()
	var ps []string
	if fl == nil {
		return ps
	}
	for _, f := range fl.List {
		k := typeKind(f.Type)
		if k == "" {
			t.fail(f, "parameter type")
		}
		if len(f.Names) == 0 {
			t.fail(f, "unnamed parameter")
		}
		for _, n := range f.Names {
			if t.declaredHere(n.Name) {
				t.fail(f, "parameter %s shadows an outer parameter", n.Name)
			}
			ps = append(ps, t.declare(n.Name, k))
		}
	}
	return ps
}

func intResult(ft *ast.FuncType) bool {
	if ft.Results == nil || len(ft.Results.List) != 1 || len(ft.Results.List[0].Names) != 0 {
		return false
	}
	id, ok := ft.Results.List[0].Type.(*ast.Ident)
	return ok && id.Name == "int"
}

func main() {
	repo := flag.String("repo", "/repo", "source tree")
	out := flag.String("out", "", "output .v file")
	set := flag.String("set", "cleaners", "which functions: cleaners (GoFrag), sanity, retry (GoFrag2), buffer (GoFrag3)")
	flag.Parse()
	var b strings.Builder
	if tgs, ok := sets2[*set]; ok {
		b.WriteString("(* GENERATED by harness/cmd/gotr -set " + *set + " from the current source - do not edit *)\n")
		b.WriteString("From Coq Require Import List ZArith String.\nFrom BB.Model Require Import GoFrag GoFrag2.\nImport ListNotations.\nLocal Open Scope string_scope.\nLocal Open Scope Z_scope.\n\n")
		fset := token.NewFileSet()
		for _, tg := range tgs {
			f, err := parser.ParseFile(fset, locate(*repo, tg.file, tg.name), nil, 0)
			if err != nil {
				fmt.Fprintln(os.Stderr, "gotr:", err)
				os.Exit(2)
			}
			translate2(fset, f, tg, &b)
		}
		emit(*out, b.String())
		return
	}
	if tgs, ok := sets3[*set]; ok {
		b.WriteString("(* GENERATED by harness/cmd/gotr -set " + *set + " from the current source - do not edit *)\n")
		b.WriteString("From Coq Require Import List ZArith String.\nFrom BB.Model Require Import GoFrag GoFrag3.\nImport ListNotations.\nLocal Open Scope string_scope.\nLocal Open Scope Z_scope.\n\n")
		translate3(*repo, tgs, &b)
		emit(*out, b.String())
		return
	}
	if *set != "cleaners" {
		fmt.Fprintf(os.Stderr, "gotr: unknown set %q\n", *set)
		os.Exit(2)
	}
	b.WriteString("(* GENERATED by harness/cmd/gotr from the current source - do not edit *)\n")
	b.WriteString("From Coq Require Import List ZArith String.\nFrom BB.Model Require Import GoFrag.\nImport ListNotations.\nLocal Open Scope string_scope.\nLocal Open Scope Z_scope.\n\n")
	known := map[string]bool{}
	fset := token.NewFileSet()
	for _, tg := range targets {
		f, err := parser.ParseFile(fset, locate(*repo, tg.file, tg.name), nil, 0)
		if err != nil {
			fmt.Fprintln(os.Stderr, "gotr:", err)
			os.Exit(2)
		}
		var fd *ast.FuncDecl
		for _, d := range f.Decls {
			if x, ok := d.(*ast.FuncDecl); ok && x.Recv == nil && x.Name.Name == tg.name {
				fd = x
			}
		}
		if fd == nil || fd.Body == nil {
			fmt.Fprintf(os.Stderr, "gotr: %s: function %s not found\n", tg.file, tg.name)
			os.Exit(2)
		}
		if fd.Type.TypeParams != nil {
			fmt.Fprintf(os.Stderr, "gotr: %s is generic\n", tg.name)
			os.Exit(2)
		}
		t := &tr{fset: fset, used: map[string]int{}, kinds: map[string]string{}, known: known}
		t.push()
		ps := t.params(fd.Type.Params)
		body := fd.Body
		if tg.closure {
			// the body must be exactly `return func(...) int { ... }`
			if len(body.List) != 1 {
				t.fail(body, "%s: body is not a single return of a function literal", tg.name)
			}
			rs, ok := body.List[0].(*ast.ReturnStmt)
			if !ok || len(rs.Results) != 1 {
				t.fail(body, "%s: body is not a single return of a function literal", tg.name)
			}
			fl, ok := rs.Results[0].(*ast.FuncLit)
			if !ok || !intResult(fl.Type) {
				t.fail(body, "%s: body is not a single return of a func(...) int literal", tg.name)
			}
			t.push()
			ps = append(ps, t.params(fl.Type.Params)...)
			body = fl.Body
		} else if !intResult(fd.Type) {
			t.fail(fd, "%s: result type", tg.name)
		}
		code := t.block(body)
		fmt.Fprintf(&b, "(* %s: %s *)\n", tg.name, strings.Join(t.names, ", "))
		fmt.Fprintf(&b, "Definition %s_def : fundef := {|\n  fname := %s;\n  params := [%s];\n  body :=\n  %s\n|}.\n\n",
			tg.name, q(tg.name), strings.Join(mapq(ps), "; "), code)
		known[tg.name] = true
	}
	emit(*out, b.String())
}

func emit(out, text string) {
	if out == "" {
		fmt.Print(text)
		return
	}
	if err := os.WriteFile(out, []byte(text), 0o644); err != nil {
		fmt.Fprintln(os.Stderr, "gotr:", err)
		os.Exit(2)
	}
}

func mapq(l []string) []string {
	r := make([]string, len(l))
	for i, s := range l {
		r[i] = q(s)
	}
	return r
}

// isGosched: the statement `runtime.Gosched()` - a scheduling hint with no effect on any state the embeddings model; the
// translators skip it (a behaviour-preserving "yield here" must not take a function out of the fragment).
func isGosched(call *ast.CallExpr) bool {
	sel, ok := call.Fun.(*ast.SelectorExpr)
	if !ok || len(call.Args) != 0 {
		return false
	}
	pkg, ok := sel.X.(*ast.Ident)
	return ok && pkg.Name == "runtime" && pkg.Obj == nil && sel.Sel.Name == "Gosched"
}

// locate: the file of the package that declares the function, method or func-valued variable `name` - the file it used to
// live in if it is still there, otherwise any other non-test file (a declaration moved to another file is the same declaration).
func locate(repo, file, name string) string {
	declares := func(path string) bool {
		f, err := parser.ParseFile(token.NewFileSet(), path, nil, 0)
		if err != nil {
			return false
		}
		for _, d := range f.Decls {
			switch x := d.(type) {
			case *ast.FuncDecl:
				if x.Name.Name == name && x.Body != nil {
					return true
				}
			case *ast.GenDecl:
				if x.Tok == token.VAR {
					for _, sp := range x.Specs {
						for _, n := range sp.(*ast.ValueSpec).Names {
							if n.Name == name {
								return true
							}
						}
					}
				}
			}
		}
		return false
	}
	def := filepath.Join(repo, file)
	if declares(def) {
		return def
	}
	names, _ := filepath.Glob(filepath.Join(repo, "*.go"))
	sort.Strings(names)
	for _, n := range names {
		if !strings.HasSuffix(n, "_test.go") && n != def && declares(n) {
			return n
		}
	}
	return def
}
