// The second target set of gotr: straight-line functions over fixed-width integers, translated into terms of
// coq/Model/GoFrag2.v (sets "sanity": chanpubsub.go (*ChanPubSub).sanityCheckSubscribersDelta, and "retry": retry.go
// calcExponentialRetry).  Same conventions as main.go: canonical names (p0.., v0..), go/parser only, anything outside the
// fragment is an error (exit 2).
//
// Fragment: parameters of type int, int32, uint32, int64, time.Duration (= int64); no result or one integer result; an
// optional receiver, of which only `recv.method()` statements without arguments (effect markers) may be made;
// `x := e`, `x = e`, `x op= e` (+ - * <<), `x++/x--`, `var x T [= e]`, if/else (with optional init), return [e],
// `panic("string literal")`; expressions: integer literals, package-level integer constants of the same file (declared
// with a literal value), conversions T(e) between the integer types above, + - * unary - at the type of the typed operand,
// `a << b`, comparisons, && || !, and rand.Int63n(e) of math/rand (an external function).
//
// Types: the translator has no type checker.  Go has no implicit conversions between integer types, so in a program that
// COMPILES (the harness builds the same tree) the type of `a op b` is the type of whichever operand is typed, and an
// untyped constant operand is representable at it; an untyped constant shifted left takes the type of its context (the
// variable assigned to, the conversion applied, the result type).  Whatever cannot be typed this way is an error.
package main

import (
	"fmt"
	"go/ast"
	"go/token"
	"math/big"
	"os"
	"strconv"
	"strings"
)

type target2 struct {
	file string
	recv string // receiver's type name ("" for a package-level function or func-valued var)
	name string
}

var sets2 = map[string][]target2{
	"sanity": {{"chanpubsub.go", "ChanPubSub", "sanityCheckSubscribersDelta"}},
	"retry":  {{"retry.go", "", "calcExponentialRetry"}},
}

var ityOf = map[string]string{"int": "TInt", "int32": "TInt32", "uint32": "TUint32", "int64": "TInt64"}

type tr2 struct {
	*tr
	file    *ast.File
	consts  map[string]*big.Int // package-level integer constants of the file that were declared with a literal
	imports map[string]string   // local package name -> import path
	result  string              // "" or an integer type
}

// typeName2: "int" | "int32" | "uint32" | "int64" ("time.Duration" is an int64) | ""
func (t *tr2) typeName2(e ast.Expr) string {
	switch x := e.(type) {
	case *ast.ParenExpr:
		return t.typeName2(x.X)
	case *ast.Ident:
		if _, ok := ityOf[x.Name]; ok && !t.shadowed(x.Name) && !t.fileDeclares(x.Name) {
			return x.Name
		}
	case *ast.SelectorExpr:
		if p, ok := x.X.(*ast.Ident); ok && !t.shadowed(p.Name) && t.imports[p.Name] == "time" && x.Sel.Name == "Duration" {
			return "int64"
		}
	}
	return ""
}

// fileDeclares: does the FILE declare a package-level type/func/var/const of that name (which would hide a predeclared
// identifier)?  Declarations in the package's other files are not seen: gotr reads one file; see the trusted-base note.
func (t *tr2) fileDeclares(name string) bool {
	if t.file.Scope != nil {
		if _, ok := t.file.Scope.Objects[name]; ok {
			return true
		}
	}
	return false
}

func (t *tr2) collectFile() {
	t.consts = map[string]*big.Int{}
	t.imports = map[string]string{}
	for _, im := range t.file.Imports {
		p, err := strconv.Unquote(im.Path.Value)
		if err != nil {
			continue
		}
		name := p[strings.LastIndex(p, "/")+1:]
		if im.Name != nil {
			name = im.Name.Name
		}
		t.imports[name] = p
	}
	for _, d := range t.file.Decls {
		gd, ok := d.(*ast.GenDecl)
		if !ok || gd.Tok != token.CONST {
			continue
		}
		for _, sp := range gd.Specs {
			vs := sp.(*ast.ValueSpec)
			if vs.Type != nil || len(vs.Values) != len(vs.Names) {
				continue // typed constants and iota-style groups are not constants of the fragment
			}
			for i, n := range vs.Names {
				if bl, ok := vs.Values[i].(*ast.BasicLit); ok && bl.Kind == token.INT && plainDecimal(bl.Value) {
					v, _ := new(big.Int).SetString(bl.Value, 10)
					t.consts[n.Name] = v
				}
			}
		}
	}
}

func plainDecimal(v string) bool {
	return !(strings.HasPrefix(v, "0") && len(v) > 1 || strings.ContainsAny(v, "_xXbBoO"))
}

func zlit(v *big.Int) string {
	if v.Sign() < 0 {
		return "(XInt (" + v.String() + "))"
	}
	return "(XInt " + v.String() + ")"
}

// constant: the value of an untyped integer constant expression, or nil
func (t *tr2) constant(e ast.Expr) *big.Int {
	switch x := e.(type) {
	case *ast.ParenExpr:
		return t.constant(x.X)
	case *ast.BasicLit:
		if x.Kind == token.INT && plainDecimal(x.Value) {
			v, _ := new(big.Int).SetString(x.Value, 10)
			return v
		}
	case *ast.Ident:
		if v, ok := t.consts[x.Name]; ok && !t.shadowed(x.Name) {
			return v
		}
	case *ast.UnaryExpr:
		if v := t.constant(x.X); v != nil {
			switch x.Op {
			case token.SUB:
				return new(big.Int).Neg(v)
			case token.ADD:
				return v
			}
		}
	case *ast.BinaryExpr:
		a, b := t.constant(x.X), t.constant(x.Y)
		if a != nil && b != nil {
			switch x.Op {
			case token.ADD:
				return new(big.Int).Add(a, b)
			case token.SUB:
				return new(big.Int).Sub(a, b)
			case token.MUL:
				return new(big.Int).Mul(a, b)
			}
		}
	}
	return nil
}

var arith2 = map[token.Token]string{token.ADD: "BAdd", token.SUB: "BSub", token.MUL: "BMul"}
var cmp2 = map[token.Token]string{token.LSS: "BLt", token.LEQ: "BLe", token.GTR: "BGt", token.GEQ: "BGe", token.EQL: "BEq", token.NEQ: "BNe"}

// expr2 translates e; want is the type an untyped constant (shift) would take from its context, or "".
// Returns the term and its type: an integer type name, "bool", or "untyped" (an integer constant).
func (t *tr2) expr2(e ast.Expr, want string) (string, string) {
	if v := t.constant(e); v != nil {
		return zlit(v), "untyped"
	}
	switch x := e.(type) {
	case *ast.ParenExpr:
		return t.expr2(x.X, want)
	case *ast.Ident:
		switch x.Name {
		case "true", "false":
			if t.shadowed(x.Name) || t.fileDeclares(x.Name) {
				t.fail(x, "%s is redeclared", x.Name)
			}
			return "(XBool " + x.Name + ")", "bool"
		}
		u := t.resolve(x)
		k := t.kinds[u]
		if _, ok := ityOf[k]; !ok && k != "bool" {
			t.fail(x, "use of %s (kind %q) as a value", x.Name, k)
		}
		return "(XVar " + q(u) + ")", k
	case *ast.BasicLit:
		t.fail(x, "literal %s", x.Value)
	case *ast.UnaryExpr:
		switch x.Op {
		case token.NOT:
			a, ta := t.expr2(x.X, "")
			if ta != "bool" {
				t.fail(x, "! of a non-bool")
			}
			return "(XNot " + a + ")", "bool"
		case token.SUB:
			a, ta := t.expr2(x.X, want)
			if _, ok := ityOf[ta]; !ok {
				t.fail(x, "unary - of a non-integer")
			}
			return "(XNeg " + ityOf[ta] + " " + a + ")", ta
		case token.ADD:
			a, ta := t.expr2(x.X, want)
			if _, ok := ityOf[ta]; !ok {
				t.fail(x, "unary + of a non-integer")
			}
			return a, ta
		}
		t.fail(x, "unary operator %s", x.Op)
	case *ast.BinaryExpr:
		switch x.Op {
		case token.LAND, token.LOR:
			a, ta := t.expr2(x.X, "")
			b, tb := t.expr2(x.Y, "")
			if ta != "bool" || tb != "bool" {
				t.fail(x, "%s of non-bools", x.Op)
			}
			if x.Op == token.LAND {
				return "(XAnd " + a + " " + b + ")", "bool"
			}
			return "(XOr " + a + " " + b + ")", "bool"
		case token.SHL:
			a, ta := t.expr2(x.X, want)
			if ta == "untyped" {
				// an untyped constant shifted by a non-constant count: the constant takes the type of the context
				if _, ok := ityOf[want]; !ok {
					t.fail(x, "shift of an untyped constant in a context without an integer type")
				}
				ta = want
			}
			if _, ok := ityOf[ta]; !ok {
				t.fail(x, "shift of a non-integer")
			}
			b, tb := t.expr2(x.Y, "")
			if _, ok := ityOf[tb]; !ok && tb != "untyped" {
				t.fail(x, "shift count of type %s", tb)
			}
			return "(XShl " + ityOf[ta] + " " + a + " " + b + ")", ta
		}
		if op, ok := arith2[x.Op]; ok {
			ty := t.unify(x, want)
			a, _ := t.expr2(x.X, ty)
			b, _ := t.expr2(x.Y, ty)
			return "(XArith " + ityOf[ty] + " " + op + " " + a + " " + b + ")", ty
		}
		if op, ok := cmp2[x.Op]; ok {
			ta, tb := t.typeOnly(x.X), t.typeOnly(x.Y)
			if ta == "bool" && tb == "bool" && (x.Op == token.EQL || x.Op == token.NEQ) {
				a, _ := t.expr2(x.X, "")
				b, _ := t.expr2(x.Y, "")
				return "(XCmp " + op + " " + a + " " + b + ")", "bool"
			}
			ty := t.unify(x, "")
			a, _ := t.expr2(x.X, ty)
			b, _ := t.expr2(x.Y, ty)
			return "(XCmp " + op + " " + a + " " + b + ")", "bool"
		}
		t.fail(x, "operator %s", x.Op)
	case *ast.CallExpr:
		if x.Ellipsis != token.NoPos {
			t.fail(x, "variadic call")
		}
		if ty := t.typeName2(x.Fun); ty != "" {
			if len(x.Args) != 1 {
				t.fail(x, "conversion with %d arguments", len(x.Args))
			}
			a, ta := t.expr2(x.Args[0], ty)
			if ta == "untyped" {
				return a, ty // a constant conversion: representable, or the tree does not compile
			}
			if _, ok := ityOf[ta]; !ok {
				t.fail(x, "conversion of a %s", ta)
			}
			return "(XConv " + ityOf[ty] + " " + a + ")", ty
		}
		if sel, ok := x.Fun.(*ast.SelectorExpr); ok {
			if p, ok := sel.X.(*ast.Ident); ok && !t.shadowed(p.Name) && t.imports[p.Name] == "math/rand" && sel.Sel.Name == "Int63n" && len(x.Args) == 1 {
				a, ta := t.expr2(x.Args[0], "int64")
				if ta != "int64" && ta != "untyped" {
					t.fail(x, "rand.Int63n of a %s", ta)
				}
				return "(XExt " + q("rand.Int63n") + " [" + a + "])", "int64"
			}
		}
		t.fail(x, "call (only integer conversions and rand.Int63n of math/rand)")
	}
	t.fail(e, "expression %T", e)
	return "", ""
}

// typeOnly: the type expr2 would return, without emitting anything that matters (the translation is pure)
func (t *tr2) typeOnly(e ast.Expr) string {
	_, ty := t.expr2(e, "")
	return ty
}

// unify: the integer type of a binary arithmetic or comparison expression with at least one typed operand
func (t *tr2) unify(x *ast.BinaryExpr, want string) string {
	ca, cb := t.constant(x.X) != nil, t.constant(x.Y) != nil
	var ta, tb string
	if !ca {
		ta = t.typeOnlyWant(x.X, want)
	}
	if !cb {
		tb = t.typeOnlyWant(x.Y, want)
	}
	ty := ta
	if ca {
		ty = tb
	} else if !cb && ta != tb {
		t.fail(x, "operands of types %s and %s", ta, tb)
	}
	if _, ok := ityOf[ty]; !ok {
		t.fail(x, "operator %s on operands of type %q", x.Op, ty)
	}
	return ty
}

func (t *tr2) typeOnlyWant(e ast.Expr, want string) string {
	_, ty := t.expr2(e, want)
	return ty
}

// coqString: a Go string as a Coq string literal (printable ASCII only)
func (t *tr2) coqString(n ast.Node, s string) string {
	for _, r := range s {
		if r < 0x20 || r > 0x7e {
			t.fail(n, "string with a character outside printable ASCII")
		}
	}
	return `"` + strings.ReplaceAll(s, `"`, `""`) + `"`
}

func seq2(ss []string) string {
	if len(ss) == 0 {
		return "YSkip"
	}
	out := ss[len(ss)-1]
	for i := len(ss) - 2; i >= 0; i-- {
		out = "(YSeq " + ss[i] + "\n  " + out + ")"
	}
	return out
}

func (t *tr2) block2(b *ast.BlockStmt) string {
	t.push()
	defer t.pop()
	var ss []string
	for _, s := range b.List {
		ss = append(ss, t.stmt2(s))
	}
	return seq2(ss)
}

func (t *tr2) stmt2(s ast.Stmt) string {
	switch x := s.(type) {
	case *ast.EmptyStmt:
		return "YSkip"
	case *ast.BlockStmt:
		return t.block2(x)
	case *ast.AssignStmt:
		if len(x.Lhs) != 1 || len(x.Rhs) != 1 {
			t.fail(x, "multiple assignment")
		}
		id, ok := x.Lhs[0].(*ast.Ident)
		if !ok || id.Name == "_" {
			t.fail(x, "assignment to a non-variable")
		}
		switch x.Tok {
		case token.DEFINE:
			rhs, ty := t.expr2(x.Rhs[0], "") // evaluated in the scope before the declaration
			if ty == "untyped" {
				ty = "int" // the default type of an integer constant
			}
			if _, ok := ityOf[ty]; !ok && ty != "bool" {
				t.fail(x, "declaration of a variable of type %q", ty)
			}
			if t.declaredHere(id.Name) {
				t.fail(x, "redeclaration of %s in the same scope", id.Name)
			}
			return "(YAssign " + q(t.declare(id.Name, ty)) + " " + rhs + ")"
		case token.ASSIGN:
			u := t.resolve(id)
			k := t.kinds[u]
			if _, ok := ityOf[k]; !ok && k != "bool" {
				t.fail(x, "assignment to %s of kind %q", id.Name, k)
			}
			rhs, ty := t.expr2(x.Rhs[0], k)
			if ty != k && !(ty == "untyped" && k != "bool") {
				t.fail(x, "assignment of a %s to a %s", ty, k)
			}
			return "(YAssign " + q(u) + " " + rhs + ")"
		case token.ADD_ASSIGN, token.SUB_ASSIGN, token.MUL_ASSIGN, token.SHL_ASSIGN:
			u := t.resolve(id)
			k := t.kinds[u]
			if _, ok := ityOf[k]; !ok {
				t.fail(x, "op= on a non-integer")
			}
			if x.Tok == token.SHL_ASSIGN {
				rhs, ty := t.expr2(x.Rhs[0], "")
				if _, ok := ityOf[ty]; !ok && ty != "untyped" {
					t.fail(x, "shift count of type %s", ty)
				}
				return "(YAssign " + q(u) + " (XShl " + ityOf[k] + " (XVar " + q(u) + ") " + rhs + "))"
			}
			rhs, ty := t.expr2(x.Rhs[0], k)
			if ty != k && ty != "untyped" {
				t.fail(x, "op= with a %s on a %s", ty, k)
			}
			op := map[token.Token]string{token.ADD_ASSIGN: "BAdd", token.SUB_ASSIGN: "BSub", token.MUL_ASSIGN: "BMul"}[x.Tok]
			return "(YAssign " + q(u) + " (XArith " + ityOf[k] + " " + op + " (XVar " + q(u) + ") " + rhs + "))"
		}
		t.fail(x, "assignment operator %s", x.Tok)
	case *ast.IncDecStmt:
		id, ok := x.X.(*ast.Ident)
		if !ok {
			t.fail(x, "++/-- on a non-variable")
		}
		u := t.resolve(id)
		k := t.kinds[u]
		if _, ok := ityOf[k]; !ok {
			t.fail(x, "++/-- on a non-integer")
		}
		op := "BAdd"
		if x.Tok == token.DEC {
			op = "BSub"
		}
		return "(YAssign " + q(u) + " (XArith " + ityOf[k] + " " + op + " (XVar " + q(u) + ") (XInt 1)))"
	case *ast.DeclStmt:
		gd, ok := x.Decl.(*ast.GenDecl)
		if !ok || gd.Tok != token.VAR {
			t.fail(x, "declaration")
		}
		var ss []string
		for _, sp := range gd.Specs {
			vs := sp.(*ast.ValueSpec)
			if len(vs.Values) != 0 && len(vs.Values) != len(vs.Names) {
				t.fail(x, "var with a multi-valued initialiser")
			}
			for i, id := range vs.Names {
				var rhs, ty string
				declared := ""
				if vs.Type != nil {
					if declared = t.typeName2(vs.Type); declared == "" {
						if tid, ok := vs.Type.(*ast.Ident); ok && tid.Name == "bool" && !t.shadowed("bool") && !t.fileDeclares("bool") {
							declared = "bool"
						} else {
							t.fail(x, "var type")
						}
					}
				}
				if len(vs.Values) != 0 {
					rhs, ty = t.expr2(vs.Values[i], declared)
					if ty == "untyped" {
						ty = declared
						if ty == "" {
							ty = "int"
						}
					}
					if declared != "" && ty != declared {
						t.fail(x, "var of type %s initialised with a %s", declared, ty)
					}
				} else {
					ty = declared
					rhs = "(XInt 0)"
					if ty == "bool" {
						rhs = "(XBool false)"
					}
				}
				if _, ok := ityOf[ty]; !ok && ty != "bool" {
					t.fail(x, "var of type %q", ty)
				}
				if t.declaredHere(id.Name) {
					t.fail(x, "redeclaration of %s", id.Name)
				}
				ss = append(ss, "(YAssign "+q(t.declare(id.Name, ty))+" "+rhs+")")
			}
		}
		return seq2(ss)
	case *ast.IfStmt:
		t.push() // the scope of the init statement
		defer t.pop()
		var pre []string
		if x.Init != nil {
			pre = append(pre, t.stmt2(x.Init))
		}
		cond, tc := t.expr2(x.Cond, "")
		if tc != "bool" {
			t.fail(x, "condition of type %s", tc)
		}
		thn := t.block2(x.Body)
		els := "YSkip"
		switch e := x.Else.(type) {
		case nil:
		case *ast.BlockStmt:
			els = t.block2(e)
		case *ast.IfStmt:
			els = t.stmt2(e)
		default:
			t.fail(x, "else branch")
		}
		return seq2(append(pre, "(YIf "+cond+"\n  "+thn+"\n  "+els+")"))
	case *ast.ReturnStmt:
		if t.result == "" {
			if len(x.Results) != 0 {
				t.fail(x, "return of a value from a function without a result")
			}
			return "YReturn0"
		}
		if len(x.Results) != 1 {
			t.fail(x, "return of %d values", len(x.Results))
		}
		a, ta := t.expr2(x.Results[0], t.result)
		if ta != t.result && ta != "untyped" {
			t.fail(x, "return of a %s from a function returning %s", ta, t.result)
		}
		return "(YReturn " + a + ")"
	case *ast.ExprStmt:
		call, ok := x.X.(*ast.CallExpr)
		if !ok || call.Ellipsis != token.NoPos {
			t.fail(x, "expression statement")
		}
		if isGosched(call) {
			return "YSkip"
		}
		switch f := call.Fun.(type) {
		case *ast.Ident:
			if f.Name == "panic" && !t.shadowed("panic") && !t.fileDeclares("panic") && len(call.Args) == 1 {
				bl, ok := call.Args[0].(*ast.BasicLit)
				if !ok || bl.Kind != token.STRING {
					t.fail(x, "panic of something other than a string literal")
				}
				s, err := strconv.Unquote(bl.Value)
				if err != nil {
					t.fail(x, "string literal %s", bl.Value)
				}
				return "(YPanic " + t.coqString(bl, s) + ")"
			}
		case *ast.SelectorExpr:
			if r, ok := f.X.(*ast.Ident); ok && len(call.Args) == 0 {
				if u := t.resolve(r); t.kinds[u] == "recv" {
					return "(YMark " + q(f.Sel.Name) + ")"
				}
			}
		}
		t.fail(x, "call statement (only panic(\"...\") and receiver.method())")
	}
	t.fail(s, "statement %T", s)
	return ""
}

func (t *tr2) params2(fl *ast.FieldList) []string {
	t.inParams = true
	defer func() { t.inParams = false }()
	var ps []string
	if fl == nil {
		return ps
	}
	for _, f := range fl.List {
		k := t.typeName2(f.Type)
		if k == "" {
			t.fail(f, "parameter type")
		}
		if len(f.Names) == 0 {
			t.fail(f, "unnamed parameter")
		}
		for _, n := range f.Names {
			if n.Name == "_" {
				t.fail(f, "blank parameter")
			}
			ps = append(ps, "("+q(t.declare(n.Name, k))+", "+ityOf[k]+")")
		}
	}
	return ps
}

func recvTypeName(e ast.Expr) string {
	for {
		switch x := e.(type) {
		case *ast.StarExpr:
			e = x.X
		case *ast.ParenExpr:
			e = x.X
		case *ast.IndexExpr:
			e = x.X
		case *ast.IndexListExpr:
			e = x.X
		case *ast.Ident:
			return x.Name
		default:
			return ""
		}
	}
}

// translate2 prints one target as a [fundef2]
func translate2(fset *token.FileSet, f *ast.File, tg target2, b *strings.Builder) {
	var ft *ast.FuncType
	var body *ast.BlockStmt
	var recv *ast.Ident
	n := 0
	for _, d := range f.Decls {
		switch x := d.(type) {
		case *ast.FuncDecl:
			if x.Name.Name != tg.name || x.Body == nil {
				continue
			}
			if tg.recv == "" && x.Recv == nil {
				ft, body = x.Type, x.Body
				n++
			}
			if tg.recv != "" && x.Recv != nil && len(x.Recv.List) == 1 && recvTypeName(x.Recv.List[0].Type) == tg.recv {
				ft, body = x.Type, x.Body
				if len(x.Recv.List[0].Names) == 1 {
					recv = x.Recv.List[0].Names[0]
				}
				n++
			}
		case *ast.GenDecl:
			// `var name = func(...) ... { ... }` (a package-level seam)
			if x.Tok != token.VAR || tg.recv != "" {
				continue
			}
			for _, sp := range x.Specs {
				vs := sp.(*ast.ValueSpec)
				for i, id := range vs.Names {
					if id.Name != tg.name {
						continue
					}
					n++
					if vs.Type == nil && len(vs.Values) == len(vs.Names) {
						if fl, ok := vs.Values[i].(*ast.FuncLit); ok {
							ft, body = fl.Type, fl.Body
						}
					}
				}
			}
		}
	}
	if n != 1 || ft == nil {
		fmt.Fprintf(os.Stderr, "gotr: %s: %s is not declared exactly once as a function or as `var %s = func...`\n", tg.file, tg.name, tg.name)
		os.Exit(2)
	}
	if ft.TypeParams != nil {
		fmt.Fprintf(os.Stderr, "gotr: %s is generic\n", tg.name)
		os.Exit(2)
	}
	t := &tr2{tr: &tr{fset: fset, used: map[string]int{}, kinds: map[string]string{}, known: map[string]bool{}}, file: f}
	t.collectFile()
	t.push()
	if recv != nil && recv.Name != "_" {
		t.scopes[0][recv.Name] = "recv"
		t.kinds["recv"] = "recv"
		t.names = append(t.names, "receiver = "+recv.Name)
	}
	t.push()
	ps := t.params2(ft.Params)
	if ft.Results != nil && len(ft.Results.List) != 0 {
		if len(ft.Results.List) != 1 || len(ft.Results.List[0].Names) != 0 {
			t.fail(ft, "%s: result list", tg.name)
		}
		if t.result = t.typeName2(ft.Results.List[0].Type); t.result == "" {
			t.fail(ft, "%s: result type", tg.name)
		}
	}
	code := t.block2(body)
	var cs []string
	for name, v := range t.consts {
		cs = append(cs, name+" = "+v.String())
	}
	sortStrings(cs)
	fmt.Fprintf(b, "(* %s: %s; result: %s; constants of the file: %s *)\n", tg.name, strings.Join(t.names, ", "),
		map[bool]string{true: "none", false: t.result}[t.result == ""], strings.Join(cs, ", "))
	fmt.Fprintf(b, "Definition %s_def : fundef2 := {|\n  fname2 := %s;\n  params2 := [%s];\n  body2 :=\n  %s\n|}.\n\n",
		tg.name, q(tg.name), strings.Join(ps, "; "), code)
}

func sortStrings(l []string) {
	for i := 1; i < len(l); i++ {
		for j := i; j > 0 && l[j] < l[j-1]; j-- {
			l[j], l[j-1] = l[j-1], l[j]
		}
	}
}
