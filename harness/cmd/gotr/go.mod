module gotr

go 1.23
