// instr: syntactic instrumenter. For every given Go source file it writes a copy into -out in which a call
// `verifP(<id>)` is inserted before every statement that performs a synchronisation operation (lock/unlock/cond/atomic/
// channel/go/timer calls), so that the harness can open each race window by delaying a goroutine exactly there.
// It only ADDS call statements; it never rewrites or removes code. The id table is written to <out>/points.txt.
package main

import (
	"flag"
	"fmt"
	"go/ast"
	"go/parser"
	"go/printer"
	"go/token"
	"os"
	"path/filepath"
	"strings"
)

var syncNames = map[string]bool{
	"Lock": true, "Unlock": true, "RLock": true, "RUnlock": true, "TryRLock": true, "TryLock": true,
	"Wait": true, "Broadcast": true, "Signal": true, "Do": true, "Done": true, "Add": true, "Load": true, "Store": true,
	"CompareAndSwap": true, "Swap": true, "Sleep": true, "NewTimer": true, "NewTicker": true, "AfterFunc": true,
	"Err": true, "TryRecv": true, "Select": true,
}

type inst struct {
	fset   *token.FileSet
	file   string
	next   *int
	points *[]string
	fn     string // the enclosing top-level function: "Name" or "Recv.Name" (receiver type without * and type parameters)
}

// containsSync reports whether node n (not descending into function literals) performs a synchronisation operation.
func containsSync(n ast.Node) bool {
	found := false
	ast.Inspect(n, func(x ast.Node) bool {
		if found {
			return false
		}
		switch v := x.(type) {
		case *ast.FuncLit:
			return false
		case *ast.GoStmt:
			found = true
		case *ast.SendStmt:
			found = true
		case *ast.SelectStmt:
			found = true
		case *ast.UnaryExpr:
			if v.Op == token.ARROW {
				found = true
			}
		case *ast.RangeStmt:
			// ranging over a channel is a receive; cheap over-approximation: only flag when body is flagged elsewhere
		case *ast.CallExpr:
			switch f := v.Fun.(type) {
			case *ast.SelectorExpr:
				if syncNames[f.Sel.Name] {
					found = true
				}
			case *ast.Ident:
				if f.Name == "close" {
					found = true
				}
			}
		}
		return !found
	})
	return found
}

// describeSync names the first synchronisation operation of node n (not descending into function literals): "go", "send",
// "select", "recv", "close" or the method name of a call ("Lock", "Wait", "Err", ...), followed by the callee expression
// ("b.mutex.Lock") or "-".  It is written to points.txt so that a
// harness can find a point by what it does rather than by its line.
func describeSync(n ast.Node) string {
	what := ""
	ast.Inspect(n, func(x ast.Node) bool {
		if what != "" {
			return false
		}
		switch v := x.(type) {
		case *ast.FuncLit:
			return false
		case *ast.GoStmt:
			what = "go"
		case *ast.SendStmt:
			what = "send"
		case *ast.SelectStmt:
			what = "select"
		case *ast.UnaryExpr:
			if v.Op == token.ARROW {
				what = "recv"
			}
		case *ast.CallExpr:
			switch f := v.Fun.(type) {
			case *ast.SelectorExpr:
				if syncNames[f.Sel.Name] {
					what = f.Sel.Name + " " + exprText(f)
				}
			case *ast.Ident:
				if f.Name == "close" {
					what = "close close"
				}
			}
		}
		return what == ""
	})
	if what == "" {
		what = "?"
	}
	if !strings.Contains(what, " ") {
		what += " -"
	}
	return what
}

// exprText renders a selector chain (b.cond.Broadcast) without spaces.
func exprText(e ast.Expr) string {
	switch v := e.(type) {
	case *ast.Ident:
		return v.Name
	case *ast.SelectorExpr:
		return exprText(v.X) + "." + v.Sel.Name
	case *ast.CallExpr:
		return exprText(v.Fun) + "()"
	case *ast.ParenExpr:
		return exprText(v.X)
	case *ast.StarExpr:
		return "*" + exprText(v.X)
	case *ast.UnaryExpr:
		return v.Op.String() + exprText(v.X)
	case *ast.IndexExpr:
		return exprText(v.X) + "[]"
	}
	return "_"
}

// funcName is "Name" for a function and "Recv.Name" for a method (receiver type without pointer and type parameters), so
// that the users of points.txt can find a point by the function it is in, whichever file that function lives in.
func funcName(fd *ast.FuncDecl) string {
	if fd.Recv == nil || len(fd.Recv.List) == 0 {
		return fd.Name.Name
	}
	t := fd.Recv.List[0].Type
	for {
		switch v := t.(type) {
		case *ast.StarExpr:
			t = v.X
			continue
		case *ast.IndexExpr:
			t = v.X
			continue
		case *ast.IndexListExpr:
			t = v.X
			continue
		case *ast.ParenExpr:
			t = v.X
			continue
		case *ast.Ident:
			return v.Name + "." + fd.Name.Name
		}
		return "?." + fd.Name.Name
	}
}

func (in *inst) point(pos token.Pos, what string) ast.Stmt {
	id := *in.next
	*in.next++
	p := in.fset.Position(pos)
	*in.points = append(*in.points, fmt.Sprintf("%d %s:%d %s fn=%s", id, filepath.Base(p.Filename), p.Line, what, in.fn))
	return &ast.ExprStmt{X: &ast.CallExpr{Fun: ast.NewIdent("verifP"), Args: []ast.Expr{&ast.BasicLit{Kind: token.INT, Value: fmt.Sprint(id)}}}}
}

func (in *inst) stmts(list []ast.Stmt) []ast.Stmt {
	var out []ast.Stmt
	for _, s := range list {
		in.descend(s)
		flag := false
		switch v := s.(type) {
		case *ast.DeferStmt, *ast.LabeledStmt, *ast.DeclStmt:
			flag = false
		case *ast.BlockStmt:
			flag = false
		case *ast.IfStmt:
			flag = (v.Init != nil && containsSync(v.Init)) || containsSync(v.Cond)
		case *ast.ForStmt:
			flag = (v.Init != nil && containsSync(v.Init)) || (v.Cond != nil && containsSync(v.Cond))
		case *ast.RangeStmt:
			flag = containsSync(v.X)
		case *ast.SwitchStmt:
			flag = (v.Init != nil && containsSync(v.Init)) || (v.Tag != nil && containsSync(v.Tag))
		case *ast.TypeSwitchStmt:
			flag = false
		case *ast.SelectStmt:
			flag = true
		default:
			flag = containsSync(s)
		}
		if flag {
			out = append(out, in.point(s.Pos(), fmt.Sprintf("%T %s", s, describeSync(s))))
		}
		out = append(out, s)
	}
	return out
}

// descend instruments nested statement lists (including function literal bodies anywhere inside s).
func (in *inst) descend(s ast.Node) {
	ast.Inspect(s, func(x ast.Node) bool {
		switch v := x.(type) {
		case *ast.SelectStmt:
			in.clauses(v.Body)
			return false
		case *ast.SwitchStmt:
			if v.Init != nil {
				in.descend(v.Init)
			}
			in.clauses(v.Body)
			return false
		case *ast.TypeSwitchStmt:
			in.clauses(v.Body)
			return false
		case *ast.BlockStmt:
			v.List = in.stmts(v.List)
			return false
		case *ast.CaseClause:
			v.Body = in.stmts(v.Body)
			return false
		case *ast.CommClause:
			v.Body = in.stmts(v.Body)
			return false
		}
		return true
	})
}

// clauses instruments the bodies of the case/comm clauses of a switch or select (never the clause list itself).
func (in *inst) clauses(body *ast.BlockStmt) {
	for _, c := range body.List {
		switch v := c.(type) {
		case *ast.CaseClause:
			v.Body = in.stmts(v.Body)
		case *ast.CommClause:
			v.Body = in.stmts(v.Body)
		}
	}
}

func main() {
	out := flag.String("out", "", "output directory")
	flag.Parse()
	if *out == "" {
		fmt.Fprintln(os.Stderr, "usage: instr -out DIR file.go ...")
		os.Exit(2)
	}
	next := 1
	var points []string
	for _, f := range flag.Args() {
		fset := token.NewFileSet()
		af, err := parser.ParseFile(fset, f, nil, parser.ParseComments)
		if err != nil {
			fmt.Fprintln(os.Stderr, err)
			os.Exit(1)
		}
		in := &inst{fset: fset, file: f, next: &next, points: &points}
		for _, d := range af.Decls {
			if fd, ok := d.(*ast.FuncDecl); ok && fd.Body != nil {
				in.fn = funcName(fd)
				fd.Body.List = in.stmts(fd.Body.List)
			}
		}
		w, err := os.Create(filepath.Join(*out, filepath.Base(f)))
		if err != nil {
			fmt.Fprintln(os.Stderr, err)
			os.Exit(1)
		}
		// comments are dropped from the instrumented copy: positions of inserted nodes would otherwise scramble them
		af.Comments = nil
		if err := printer.Fprint(w, fset, af); err != nil {
			fmt.Fprintln(os.Stderr, err)
			os.Exit(1)
		}
		w.Close()
	}
	os.WriteFile(filepath.Join(*out, "points.txt"), []byte(strings.Join(points, "\n")+"\n"), 0o644)
}
