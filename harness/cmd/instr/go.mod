module instr

go 1.23
