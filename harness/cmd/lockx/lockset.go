package main

import (
	"go/ast"
	"go/types"
	"sort"
	"strings"
)

// A lock is identified inside the analysis by an access path: a root variable plus a chain of field names
// ("mutex", "pongC.L", "" for a local lock variable).
type lockKey struct {
	root  types.Object
	chain string
}

const (
	modeR = 1
	modeW = 2
)

// lockset is the set of locks syntactically held, with modes. top is the optimistic "not yet known" element used
// for the entry lockset of unexported helpers during the interprocedural fixpoint (meet(top, x) = x).
type lockset struct {
	top bool
	m   map[lockKey]int
}

func emptyLS() lockset { return lockset{m: map[lockKey]int{}} }
func topLS() lockset   { return lockset{top: true} }

func (l lockset) clone() lockset {
	if l.top {
		return lockset{top: true}
	}
	r := emptyLS()
	for k, v := range l.m {
		r.m[k] = v
	}
	return r
}

func meetLS(a, b lockset) lockset {
	if a.top {
		return b.clone()
	}
	if b.top {
		return a.clone()
	}
	r := emptyLS()
	for k, v := range a.m {
		if w, ok := b.m[k]; ok {
			if w < v {
				v = w
			}
			r.m[k] = v
		}
	}
	return r
}

func eqLS(a, b lockset) bool {
	if a.top != b.top {
		return false
	}
	if a.top {
		return true
	}
	if len(a.m) != len(b.m) {
		return false
	}
	for k, v := range a.m {
		if w, ok := b.m[k]; !ok || w != v {
			return false
		}
	}
	return true
}

func (l lockset) String() string {
	if l.top {
		return "TOP"
	}
	var s []string
	for k, v := range l.m {
		md := "R"
		if v == modeW {
			md = "W"
		}
		n := k.root.Name()
		if k.chain != "" {
			n += "." + k.chain
		}
		s = append(s, n+":"+md)
	}
	sort.Strings(s)
	return "{" + strings.Join(s, ",") + "}"
}

// deferItem is one registered deferred action.
type deferItem struct {
	node   ast.Node // identity
	unlock *lockKey // deferred Unlock/RUnlock
	lit    *ast.FuncLit
	call   *ast.CallExpr // deferred call of a library function (callee entry contribution at exit)
}

// state is the flow state of the intraprocedural walk.
type state struct {
	dead   bool
	ls     lockset
	defers []deferItem
}

func (s state) clone() state {
	r := state{dead: s.dead, ls: s.ls.clone()}
	r.defers = append([]deferItem(nil), s.defers...)
	return r
}

func deadState() state { return state{dead: true, ls: topLS()} }

func meetState(a, b state) state {
	if a.dead {
		return b.clone()
	}
	if b.dead {
		return a.clone()
	}
	r := state{ls: meetLS(a.ls, b.ls)}
	// defers: union by node identity, ordered by position
	seen := map[ast.Node]bool{}
	for _, d := range a.defers {
		if !seen[d.node] {
			seen[d.node] = true
			r.defers = append(r.defers, d)
		}
	}
	for _, d := range b.defers {
		if !seen[d.node] {
			seen[d.node] = true
			r.defers = append(r.defers, d)
		}
	}
	sort.SliceStable(r.defers, func(i, j int) bool { return r.defers[i].node.Pos() < r.defers[j].node.Pos() })
	return r
}

func eqState(a, b state) bool {
	if a.dead != b.dead {
		return false
	}
	if a.dead {
		return true
	}
	if !eqLS(a.ls, b.ls) || len(a.defers) != len(b.defers) {
		return false
	}
	for i := range a.defers {
		if a.defers[i].node != b.defers[i].node {
			return false
		}
	}
	return true
}
