// lockx — translator of the C11 slice: regenerates coq/Gen/ImplLocksets.v from the library's current source.
//
// For every function, method and function literal of the package in -repo it records every access to a field of a
// struct type declared by the package together with the set of locks syntactically held at that point (flow-sensitive
// over the structured control flow, interprocedural for unexported helpers: entry lockset = intersection over all call
// sites, computed as a greatest fixpoint). The output is a Coq list of `fact` records checked against the hand-written
// guard table of coq/Model/Lockset.v.
//
// Besides the field facts it emits (locals.go): the local variables captured by function literals that may run on another
// goroutine, as locations with their own access facts (impl_local_facts, impl_captures), and the DATA behind the
// synchronous-caller assumption (impl_sync_assumed / impl_sync_uses / impl_sync_sites) — the verdict on both is computed
// in Coq (Model/LocksetData.v: local_guard_ok, sync_callers_ok), not here.
//
// TRUSTED: this analysis (see DESIGN.md 7). Known limits, all erring towards reporting FEWER held locks except where
// noted: aliasing is by access path from one base variable; accesses through a local alias of a map/slice field are
// not seen; deferred code is analysed at explicit exits (return, fall-off, explicit panic), not at panics raised by
// callees; "fresh" (not yet published) is decided by source position relative to the first escaping use.
package main

import (
	"flag"
	"fmt"
	"go/ast"
	"go/importer"
	"go/parser"
	"go/token"
	"go/types"
	"os"
	"path/filepath"
	"sort"
	"strings"
)

type funcInfo struct {
	name     string // "Buffer.Close", "NewChannel"
	obj      *types.Func
	decl     *ast.FuncDecl
	exported bool // callable from outside the package with nothing held: entry lockset is empty
	file     string
}

type factKey struct {
	pos   token.Pos
	field string
	kind  byte
}

type fact struct {
	fn, lit       string
	strct, field  string
	kind          byte // 'R' or 'W'
	atomic, fresh bool
	elem          bool // write to a map/slice element reached through the field
	ls            lockset
	root          types.Object // access path of the base expression
	chain         string
	pathOK        bool
	pos           token.Position
}

type gostmt struct {
	fn, lit, target string
	pos             token.Position
	inherit         []lockKey
}

// handoff is the explicit, named exemption for a documented lock hand-off: the goroutine started by a `go func`
// literal directly inside function fn starts holding <rootName>.<chain> (which the creator must hold in write mode at
// the go statement and loses there).
type handoff struct{ file, fn, rootName, chain string }

var handoffs = []handoff{
	{"exclusive.go", "Exclusive.call", "item", "mutex"},
}

// syncCallers: library functions that call their function argument synchronously, on the calling goroutine, with the
// caller's locks still held (WaitCond releases and re-acquires cond.L around cond.Wait only). Verified syntactically
// on every run by checkSyncCaller.
var syncCallers = map[string]int{"WaitCond": 2}

type analyzer struct {
	fset  *token.FileSet
	pkg   *types.Package
	info  *types.Info
	files []*ast.File

	funcs    map[*types.Func]*funcInfo
	funcList []*funcInfo

	entry, newEntry       map[*types.Func]lockset
	called                map[*types.Func]bool
	litEntry, newLitEntry map[*ast.FuncLit]lockset
	litCalled             map[*ast.FuncLit]bool

	facts   map[factKey]*fact
	gostmts map[token.Pos]*gostmt

	// prepass results
	parent     map[ast.Node]ast.Node
	litName    map[*ast.FuncLit]string
	varLits    map[types.Object][]*ast.FuncLit // tracked local function variables -> literals that flow into them
	tracked    map[*ast.FuncLit]bool
	freshVar   map[types.Object]bool
	sliceParam map[types.Object]bool // slice-typed parameters of functions and literals (caller-owned memory)
	escapePos  map[types.Object]token.Pos
	syncOK     map[string]bool

	// captured locals and the synchronous-caller data (locals.go)
	shared     map[types.Object]*sharedVar
	sharedList []*sharedVar
	lfacts     map[localKey]*localFact
	litConc    map[*ast.FuncLit]string
	goneLits   map[*ast.FuncLit]bool
	condLocker map[string]string
	syncSites  map[token.Pos]*syncSite
	// loop-header variables are per-iteration (go.mod says go >= 1.22)
	perIterLoopVars bool
	ifaceImpls map[*types.Func][]*types.Func

	nSel, nLockOps, nCondWait, nSkippedPromoted int
	verbose                                     bool
}

func main() {
	repo := flag.String("repo", "/repo", "directory of the library package")
	out := flag.String("out", "", "output .v file")
	verbose := flag.Bool("v", false, "print entry locksets and facts")
	flag.Parse()
	if *out == "" {
		fmt.Fprintln(os.Stderr, "usage: lockx -repo <dir> -out <file.v>")
		os.Exit(2)
	}
	a := &analyzer{verbose: *verbose}
	if err := a.load(*repo); err != nil {
		fmt.Fprintln(os.Stderr, "lockx: "+err.Error())
		os.Exit(1)
	}
	a.prepass()
	rounds := a.solve()
	txt, nf := a.emit(*repo)
	if err := os.MkdirAll(filepath.Dir(*out), 0o755); err != nil {
		fmt.Fprintln(os.Stderr, "lockx: "+err.Error())
		os.Exit(1)
	}
	if err := os.WriteFile(*out, []byte(txt), 0o644); err != nil {
		fmt.Fprintln(os.Stderr, "lockx: "+err.Error())
		os.Exit(1)
	}
	fmt.Printf("lockx: %d facts, %d functions, %d literals, %d go statements, %d lock ops, %d field selections, %d rounds -> %s\n",
		nf, len(a.funcList), len(a.litName), len(a.gostmts), a.nLockOps, a.nSel, rounds, *out)
}

func (a *analyzer) load(dir string) error {
	a.fset = token.NewFileSet()
	ents, err := os.ReadDir(dir)
	if err != nil {
		return err
	}
	for _, e := range ents {
		n := e.Name()
		if e.IsDir() || !strings.HasSuffix(n, ".go") || strings.HasSuffix(n, "_test.go") || strings.HasPrefix(n, "zz_verif_") {
			continue
		}
		f, err := parser.ParseFile(a.fset, filepath.Join(dir, n), nil, parser.ParseComments)
		if err != nil {
			return err
		}
		a.files = append(a.files, f)
	}
	if len(a.files) == 0 {
		return fmt.Errorf("no Go files in %s", dir)
	}
	a.info = &types.Info{
		Types:      map[ast.Expr]types.TypeAndValue{},
		Defs:       map[*ast.Ident]types.Object{},
		Uses:       map[*ast.Ident]types.Object{},
		Selections: map[*ast.SelectorExpr]*types.Selection{},
		Instances:  map[*ast.Ident]types.Instance{},
	}
	var terrs []string
	conf := types.Config{Importer: importer.ForCompiler(a.fset, "source", nil), Error: func(err error) {
		terrs = append(terrs, err.Error())
	}}
	a.pkg, _ = conf.Check(a.files[0].Name.Name, a.fset, a.files, a.info)
	if len(terrs) > 0 {
		return fmt.Errorf("type errors:\n  %s", strings.Join(terrs, "\n  "))
	}
	a.perIterLoopVars = goModAtLeast(dir, 1, 22)
	a.funcs = map[*types.Func]*funcInfo{}
	for _, f := range a.files {
		for _, d := range f.Decls {
			fd, ok := d.(*ast.FuncDecl)
			if !ok || fd.Body == nil {
				continue
			}
			obj := a.info.Defs[fd.Name].(*types.Func)
			fi := &funcInfo{obj: obj, decl: fd, file: filepath.Base(a.fset.Position(fd.Pos()).Filename)}
			fi.name = fd.Name.Name
			fi.exported = ast.IsExported(fd.Name.Name)
			if fd.Recv != nil && len(fd.Recv.List) == 1 {
				fi.name = recvTypeName(fd.Recv.List[0].Type) + "." + fd.Name.Name
			}
			a.funcs[obj] = fi
			a.funcList = append(a.funcList, fi)
		}
	}
	sort.Slice(a.funcList, func(i, j int) bool { return a.funcList[i].name < a.funcList[j].name })
	return nil
}

func recvTypeName(e ast.Expr) string {
	switch t := e.(type) {
	case *ast.StarExpr:
		return recvTypeName(t.X)
	case *ast.ParenExpr:
		return recvTypeName(t.X)
	case *ast.IndexExpr:
		return recvTypeName(t.X)
	case *ast.IndexListExpr:
		return recvTypeName(t.X)
	case *ast.Ident:
		return t.Name
	}
	return "?"
}

// solve runs the interprocedural greatest fixpoint; returns the number of rounds.
func (a *analyzer) solve() int {
	a.entry = map[*types.Func]lockset{}
	a.litEntry = map[*ast.FuncLit]lockset{}
	for _, fi := range a.funcList {
		if fi.exported {
			a.entry[fi.obj] = emptyLS()
		} else {
			a.entry[fi.obj] = topLS()
		}
	}
	for l := range a.tracked {
		a.litEntry[l] = topLS()
	}
	rounds := 0
	for {
		rounds++
		a.round()
		changed := false
		for _, fi := range a.funcList {
			if fi.exported {
				continue
			}
			ne := a.newEntry[fi.obj]
			if !a.called[fi.obj] {
				ne = emptyLS() // never called inside the package: nothing can be assumed
			}
			if !eqLS(ne, a.entry[fi.obj]) {
				changed = true
				a.entry[fi.obj] = ne
			}
		}
		for l := range a.tracked {
			ne := a.newLitEntry[l]
			if !a.litCalled[l] {
				ne = emptyLS()
			}
			if !eqLS(ne, a.litEntry[l]) {
				changed = true
				a.litEntry[l] = ne
			}
		}
		if !changed {
			// anything still optimistic (only reachable through cycles of optimistic callers) is grounded
			ground := false
			for _, fi := range a.funcList {
				if a.entry[fi.obj].top {
					a.entry[fi.obj] = emptyLS()
					ground = true
				}
			}
			for l := range a.tracked {
				if a.litEntry[l].top {
					a.litEntry[l] = emptyLS()
					ground = true
				}
			}
			if !ground {
				break
			}
		}
		if rounds > 50 {
			fmt.Fprintln(os.Stderr, "lockx: fixpoint did not converge")
			os.Exit(1)
		}
	}
	if a.verbose {
		for _, fi := range a.funcList {
			if !fi.exported {
				fmt.Printf("entry %-40s %s\n", fi.name, a.entry[fi.obj])
			}
		}
		for l := range a.tracked {
			fmt.Printf("entry literal %s %s\n", a.fset.Position(l.Pos()), a.litEntry[l])
		}
	}
	return rounds
}

func (a *analyzer) round() {
	a.facts = map[factKey]*fact{}
	a.lfacts = map[localKey]*localFact{}
	a.syncSites = map[token.Pos]*syncSite{}
	a.gostmts = map[token.Pos]*gostmt{}
	a.newEntry = map[*types.Func]lockset{}
	a.called = map[*types.Func]bool{}
	a.newLitEntry = map[*ast.FuncLit]lockset{}
	a.litCalled = map[*ast.FuncLit]bool{}
	a.nSel, a.nLockOps, a.nCondWait = 0, 0, 0
	for _, fi := range a.funcList {
		a.newEntry[fi.obj] = topLS()
	}
	for l := range a.tracked {
		a.newLitEntry[l] = topLS()
	}
	for _, fi := range a.funcList {
		w := &walker{a: a, top: fi}
		w.analyzeBody(fi.decl.Body, a.entry[fi.obj], "")
	}
}

func (a *analyzer) contribute(f *types.Func, ls lockset) {
	a.called[f] = true
	a.newEntry[f] = meetLS(a.newEntry[f], ls)
}

func (a *analyzer) contributeLit(l *ast.FuncLit, ls lockset) {
	a.litCalled[l] = true
	a.newLitEntry[l] = meetLS(a.newLitEntry[l], ls)
}

// goModAtLeast reads the `go` directive of dir/go.mod (absent or unreadable: false, the conservative answer).
func goModAtLeast(dir string, major, minor int) bool {
	b, err := os.ReadFile(filepath.Join(dir, "go.mod"))
	if err != nil {
		return false
	}
	for _, line := range strings.Split(string(b), "\n") {
		f := strings.Fields(line)
		if len(f) == 2 && f[0] == "go" {
			var ma, mi int
			if n, _ := fmt.Sscanf(f[1], "%d.%d", &ma, &mi); n == 2 {
				return ma > major || (ma == major && mi >= minor)
			}
		}
	}
	return false
}
