package main

// Captured locals as locations, and the data behind the synchronous-caller assumption.
//
// A local variable (parameter, receiver, result, := / var) of a library function is SHARED when an identifier use of it
// lies inside a function literal that may run on another goroutine than the variable's declaring function:
//
//	go      the literal is the function of a `go` statement (or flows into a tracked function variable that is `go`ne)
//	escape  the literal is passed to a call (other than the verified synchronous callers and sync.Once.Do), stored,
//	        returned, ... : whoever receives it may run it anywhere (context.AfterFunc, option closures, resolve)
//	mvalue  a method value x.M (not called on the spot) on a local slice/map: the receiver copy shares its backing store
//
// Literals that are called on the spot, deferred, passed to a verified synchronous caller (WaitCond) or to sync.Once.Do,
// or that only flow into a tracked local function variable run on the goroutine of the enclosing function and capture
// nothing by themselves.
//
// Every identifier occurrence of a shared variable that the walker passes is an access fact (struct "local <declaring
// function>", field <variable>), with the lockset held there. An access is FRESH when it is made by the declaring
// function itself (not by a literal), before the position of the first capturing literal, and no loop that could run
// the capture before the access again encloses both (loops that also enclose the declaration create a new variable per
// iteration and do not count). Variables of sync/atomic types held by value are internally synchronised: no facts.

import (
	"fmt"
	"go/ast"
	"go/token"
	"go/types"
	"path/filepath"
	"sort"
	"strings"
)

type sharedVar struct {
	obj      types.Object
	top      *funcInfo
	declLit  *ast.FuncLit // nil: declared by the top-level function itself
	scope    string       // "Buffer.cleanup", "Exclusive.call$1"
	name     string       // unique inside scope
	capPos   token.Pos
	capNodes []ast.Node
	how      string // of the first capture
	capLit   string
}

type localFact struct {
	v      *sharedVar
	fn     string
	lit    string
	kind   byte
	fresh  bool
	ls     lockset
	pos    token.Position
	idPos  token.Pos
	inDecl bool
}

type localKey struct {
	pos  token.Pos
	kind byte
	obj  types.Object
}

type syncUse struct {
	fn    string
	idx   int
	param string
	kind  string // call | nilcmp | go | defer | literal | other | lockop | missing
	pos   token.Position
}

type syncSite struct {
	fn, lit, callee, arg string
	condStruct, locker   string
	ls                   lockset
	condRoot             types.Object
	condBase             string
	pathOK               bool
	pos                  token.Position
}

// ---------------------------------------------------------------------------------------------------------------
// classification of function literals
// ---------------------------------------------------------------------------------------------------------------

func (a *analyzer) skipParens(n ast.Node) ast.Node {
	p := a.parent[n]
	for {
		if pe, ok := p.(*ast.ParenExpr); ok {
			p = a.parent[pe]
			continue
		}
		return p
	}
}

// calleeStatic resolves the callee of a call without a walker.
func (a *analyzer) calleeStatic(fun ast.Expr) *types.Func {
	w := &walker{a: a}
	return w.calleeOf(fun)
}

// litConcurrency returns "" when the literal runs on the goroutine of its enclosing function, else "go" / "escape".
func (a *analyzer) litConcurrency(l *ast.FuncLit) string {
	p := a.skipParens(l)
	if a.tracked[l] {
		// flows only into a local function variable that is called, ranged over, appended to, nil-compared
		if a.goneLits[l] {
			return "go"
		}
		return ""
	}
	if c, ok := p.(*ast.CallExpr); ok {
		if unparen(c.Fun) == ast.Expr(l) {
			if _, isGo := a.parent[c].(*ast.GoStmt); isGo {
				return "go"
			}
			return "" // called on the spot, or deferred: same goroutine
		}
		for i, arg := range c.Args {
			if unparen(arg) != ast.Expr(l) {
				continue
			}
			_, isGo := a.parent[c].(*ast.GoStmt)
			callee := a.calleeStatic(c.Fun)
			if callee != nil && callee.Pkg() != nil {
				if callee.Pkg().Path() == "sync" && callee.Name() == "Do" && strings.HasSuffix(callee.FullName(), "sync.Once).Do") && i == 0 {
					if isGo {
						return "go"
					}
					return ""
				}
				if callee.Pkg() == a.pkg {
					if fi := a.funcs[callee]; fi != nil {
						if idx, ok := syncCallers[fi.name]; ok && a.syncOK[fi.name] && idx == i {
							if isGo {
								return "go"
							}
							return ""
						}
					}
				}
			}
			return "escape"
		}
	}
	return "escape"
}

// findGoneLits: literals of tracked function variables that are started with `go v()`.
func (a *analyzer) findGoneLits(fi *funcInfo) {
	ast.Inspect(fi.decl.Body, func(n ast.Node) bool {
		g, ok := n.(*ast.GoStmt)
		if !ok {
			return true
		}
		if id, ok := unparen(g.Call.Fun).(*ast.Ident); ok {
			if v := a.info.Uses[id]; v != nil {
				for _, l := range a.varLits[v] {
					a.goneLits[l] = true
				}
			}
		}
		return true
	})
}

// innermostLit returns the innermost function literal of fi whose extent contains pos (nil: the top-level function).
func (a *analyzer) innermostLit(fi *funcInfo, pos token.Pos) *ast.FuncLit {
	var best *ast.FuncLit
	ast.Inspect(fi.decl, func(n ast.Node) bool {
		if l, ok := n.(*ast.FuncLit); ok {
			if l.Pos() <= pos && pos < l.End() {
				best = l
				return true
			}
			return false
		}
		return true
	})
	return best
}

func (a *analyzer) scopeName(fi *funcInfo, l *ast.FuncLit) string {
	if l == nil {
		return fi.name
	}
	return fi.name + a.litName[l]
}

func isLocalVar(a *analyzer, o types.Object) (*types.Var, bool) {
	v, ok := o.(*types.Var)
	if !ok || v == nil || v.IsField() || v.Pkg() != a.pkg {
		return nil, false
	}
	if v.Parent() == nil || v.Parent() == a.pkg.Scope() || v.Parent() == types.Universe {
		return nil, false
	}
	return v, true
}

func sharesStore(t types.Type) bool {
	switch t.Underlying().(type) {
	case *types.Slice, *types.Map:
		return true
	}
	return false
}

// findShared computes the shared variables of one top-level function.
func (a *analyzer) findShared(fi *funcInfo) {
	conc := map[*ast.FuncLit]string{}
	ast.Inspect(fi.decl.Body, func(n ast.Node) bool {
		if l, ok := n.(*ast.FuncLit); ok {
			conc[l] = a.litConcurrency(l)
			a.litConc[l] = conc[l]
		}
		return true
	})
	declLitOf := map[types.Object]*ast.FuncLit{}
	getDecl := func(v types.Object) *ast.FuncLit {
		if l, ok := declLitOf[v]; ok {
			return l
		}
		l := a.innermostLit(fi, v.Pos())
		declLitOf[v] = l
		return l
	}
	capture := func(v *types.Var, node ast.Node, how, litName string) {
		if fieldClass(v.Type()) != "" {
			return
		}
		sv := a.shared[v]
		if sv == nil {
			dl := getDecl(v)
			sv = &sharedVar{obj: v, top: fi, declLit: dl, scope: a.scopeName(fi, dl), name: v.Name(), capPos: token.Pos(1 << 40)}
			a.shared[v] = sv
			a.sharedList = append(a.sharedList, sv)
		}
		sv.capNodes = append(sv.capNodes, node)
		if node.Pos() < sv.capPos {
			sv.capPos = node.Pos()
			sv.how = how
			sv.capLit = litName
		}
	}
	ast.Inspect(fi.decl, func(n ast.Node) bool {
		switch x := n.(type) {
		case *ast.Ident:
			v, ok := isLocalVar(a, a.info.Uses[x])
			if !ok || v.Pos() < fi.decl.Pos() || v.Pos() >= fi.decl.End() {
				return true
			}
			dl := getDecl(v)
			// chain of literals from the use up to (excluding) the declaring function
			var outer *ast.FuncLit
			how := ""
			for l := a.enclosingLit(x); l != nil && l != dl; l = a.enclosingLit(l) {
				if conc[l] != "" {
					outer, how = l, conc[l]
				}
			}
			if outer != nil {
				capture(v, outer, how, a.litName[outer])
			}
		case *ast.SelectorExpr:
			sel := a.info.Selections[x]
			if sel == nil || sel.Kind() != types.MethodVal {
				return true
			}
			if c, ok := a.skipParens(x).(*ast.CallExpr); ok && unparen(c.Fun) == ast.Expr(x) {
				return true // called on the spot
			}
			if id, ok := unparen(x.X).(*ast.Ident); ok {
				if v, ok := isLocalVar(a, a.info.Uses[id]); ok && sharesStore(v.Type()) {
					capture(v, x, "mvalue", "")
				}
			}
		}
		return true
	})
	// unique names inside one scope
	byScope := map[string][]*sharedVar{}
	for _, sv := range a.sharedList {
		if sv.top == fi {
			byScope[sv.scope+"\x00"+sv.obj.Name()] = append(byScope[sv.scope+"\x00"+sv.obj.Name()], sv)
		}
	}
	for _, l := range byScope {
		sort.Slice(l, func(i, j int) bool { return l[i].obj.Pos() < l[j].obj.Pos() })
		for i, sv := range l {
			if i > 0 {
				sv.name = fmt.Sprintf("%s#%d", sv.obj.Name(), i+1)
			}
		}
	}
}

// freshAccess: see the file comment. at is the node where the access happens (the identifier, or the return statement
// that assigns a named result).
func (a *analyzer) freshAccess(sv *sharedVar, at ast.Node) bool {
	if a.enclosingLit(at) != sv.declLit || at.Pos() >= sv.capPos {
		return false
	}
	for p := a.parent[at]; p != nil; p = a.parent[p] {
		switch lp := p.(type) {
		case *ast.FuncLit, *ast.FuncDecl:
			return true
		case *ast.ForStmt, *ast.RangeStmt:
			if p.Pos() <= sv.obj.Pos() && sv.obj.Pos() < p.End() {
				// the loop also encloses the declaration: a new variable per iteration — for a variable declared in the
				// loop HEADER only since Go 1.22 (go.mod)
				body := (*ast.BlockStmt)(nil)
				switch l := lp.(type) {
				case *ast.ForStmt:
					body = l.Body
				case *ast.RangeStmt:
					body = l.Body
				}
				if a.perIterLoopVars || (body != nil && sv.obj.Pos() >= body.Pos()) {
					continue
				}
			}
			for _, c := range sv.capNodes {
				if p.Pos() <= c.Pos() && c.Pos() < p.End() {
					return false
				}
			}
		}
	}
	return true
}

// localAccess records an access to a shared local variable at the identifier itself.
func (w *walker) localAccess(id *ast.Ident, wr bool, st *state) {
	w.localAccessAt(id, id, wr, st)
}

// localAccessAt records an access to the shared local variable named by id, happening at node at.
func (w *walker) localAccessAt(id *ast.Ident, at ast.Node, wr bool, st *state) {
	a := w.a
	if id == nil || id.Name == "_" {
		return
	}
	obj := a.objOf(id)
	sv := a.shared[obj]
	if sv == nil {
		return
	}
	kind := byte('R')
	if wr {
		kind = 'W'
	}
	key := localKey{at.Pos(), kind, obj}
	if f := a.lfacts[key]; f != nil {
		f.ls = meetLS(f.ls, st.ls)
		return
	}
	a.lfacts[key] = &localFact{v: sv, fn: w.top.name, lit: w.lit, kind: kind, fresh: a.freshAccess(sv, at),
		ls: st.ls.clone(), pos: a.fset.Position(at.Pos()), idPos: at.Pos()}
}

// resultWrites: `return e1, e2` in a function with NAMED results assigns them.
func (w *walker) resultWrites(r *ast.ReturnStmt, st *state) {
	if len(r.Results) == 0 {
		return
	}
	ft := w.top.decl.Type
	if l := w.a.enclosingLit(r); l != nil {
		ft = l.Type
	}
	if ft.Results == nil {
		return
	}
	for _, f := range ft.Results.List {
		for _, n := range f.Names {
			w.localAccessAt(n, r, true, st)
		}
	}
}

// declFacts: parameters, receivers and results of functions are initialised by the call, before any capture.
// (No fact is needed: an initialisation is always fresh and GImmutable accepts every fresh access.)

// ---------------------------------------------------------------------------------------------------------------
// the synchronous-caller assumption as data
// ---------------------------------------------------------------------------------------------------------------

// syncUses lists every use of the function parameter of a synchronous caller, and every lock operation the caller
// itself performs outside function literals (the inlining of the argument assumes the caller's lockset is unchanged).
func (a *analyzer) syncUses(name string, idx int) []syncUse {
	var out []syncUse
	for _, fi := range a.funcList {
		if fi.name != name {
			continue
		}
		sig := fi.obj.Type().(*types.Signature)
		if idx >= sig.Params().Len() {
			return []syncUse{{fn: name, idx: idx, kind: "missing", pos: a.fset.Position(fi.decl.Pos())}}
		}
		param := sig.Params().At(idx)
		ast.Inspect(fi.decl.Body, func(n ast.Node) bool {
			switch x := n.(type) {
			case *ast.Ident:
				if a.info.Uses[x] != types.Object(param) {
					return true
				}
				u := syncUse{fn: name, idx: idx, param: param.Name(), kind: "other", pos: a.fset.Position(x.Pos())}
				if a.enclosingLit(x) != nil {
					u.kind = "literal"
				} else {
					switch p := a.parent[x].(type) {
					case *ast.CallExpr:
						if p.Fun == ast.Expr(x) {
							u.kind = "call"
							if _, isGo := a.parent[p].(*ast.GoStmt); isGo {
								u.kind = "go"
							}
							if _, isDefer := a.parent[p].(*ast.DeferStmt); isDefer {
								u.kind = "defer"
							}
						}
					case *ast.BinaryExpr:
						if p.Op == token.EQL || p.Op == token.NEQ {
							u.kind = "nilcmp"
						}
					}
				}
				out = append(out, u)
			case *ast.CallExpr:
				if a.enclosingLit(x) != nil {
					return true
				}
				if sel, ok := unparen(x.Fun).(*ast.SelectorExpr); ok && a.info.Selections[sel] != nil {
					if f := a.calleeStatic(sel); f != nil && f.Pkg() != nil && f.Pkg().Path() == "sync" {
						switch f.Name() {
						case "Lock", "RLock", "Unlock", "RUnlock", "TryLock", "TryRLock":
							out = append(out, syncUse{fn: name, idx: idx, param: param.Name(), kind: "lockop", pos: a.fset.Position(x.Pos())})
						}
					}
				}
			}
			return true
		})
		return out
	}
	return []syncUse{{fn: name, idx: idx, kind: "missing"}}
}

// condLockers: for every *sync.Cond field of a library struct, the lock path (relative to the same object) that every
// `x.f = sync.NewCond(&x.<path>)` assignment of the package gives it; "?" when an assignment has another shape or two
// assignments disagree.
func (a *analyzer) findCondLockers() {
	a.condLocker = map[string]string{}
	set := func(k, v string) {
		if old, ok := a.condLocker[k]; ok && old != v {
			a.condLocker[k] = "?"
			return
		}
		a.condLocker[k] = v
	}
	for _, f := range a.files {
		ast.Inspect(f, func(n ast.Node) bool {
			as, ok := n.(*ast.AssignStmt)
			if !ok || len(as.Lhs) != len(as.Rhs) {
				return true
			}
			for i, l := range as.Lhs {
				sel, ok := unparen(l).(*ast.SelectorExpr)
				if !ok {
					continue
				}
				s := a.info.Selections[sel]
				if s == nil || s.Kind() != types.FieldVal || typeFullName(s.Type()) != "sync.Cond" {
					continue
				}
				owner := a.ownerOf(s)
				if owner == "" {
					continue
				}
				key := owner + "." + sel.Sel.Name
				val := "?"
				if c, ok := unparen(as.Rhs[i]).(*ast.CallExpr); ok && len(c.Args) == 1 {
					if f := a.calleeStatic(c.Fun); f != nil && f.Pkg() != nil && f.Pkg().Path() == "sync" && f.Name() == "NewCond" {
						lr, lch, ok1 := a.pathOf(c.Args[0])
						br, bch, ok2 := a.pathOf(sel.X)
						if ok1 && ok2 && lr == br {
							switch {
							case bch == "":
								val = lch
							case strings.HasPrefix(lch, bch+"."):
								val = lch[len(bch)+1:]
							}
							if val == "" {
								val = "?"
							}
						}
					}
				}
				set(key, val)
			}
			return true
		})
	}
}

// syncSite records one call of a verified synchronous caller at which the function argument was inlined.
func (w *walker) syncSite(c *ast.CallExpr, fi *funcInfo, idx int, st *state) {
	a := w.a
	s := &syncSite{fn: w.top.name, lit: w.lit, callee: fi.name, arg: "other", ls: st.ls.clone(), pos: a.fset.Position(c.Pos())}
	if idx < len(c.Args) {
		if l, ok := unparen(c.Args[idx]).(*ast.FuncLit); ok {
			s.arg = "literal " + a.litName[l]
		}
	}
	// the *sync.Cond argument, if any: its owner struct, its locker path and the base object
	for _, arg := range c.Args {
		tv, ok := a.info.Types[arg]
		if !ok || typeFullName(tv.Type) != "sync.Cond" {
			continue
		}
		if sel, ok := unparen(arg).(*ast.SelectorExpr); ok {
			if ss := a.info.Selections[sel]; ss != nil && ss.Kind() == types.FieldVal {
				s.condStruct = a.ownerOf(ss)
				s.locker = a.condLocker[s.condStruct+"."+sel.Sel.Name]
				s.condRoot, s.condBase, s.pathOK = a.pathOf(sel.X)
			}
		}
	}
	if old := a.syncSites[c.Pos()]; old != nil {
		old.ls = meetLS(old.ls, st.ls)
		return
	}
	a.syncSites[c.Pos()] = s
}

// ---------------------------------------------------------------------------------------------------------------
// emission
// ---------------------------------------------------------------------------------------------------------------

func (a *analyzer) declScopeOf(o types.Object) (string, bool) {
	for _, fi := range a.funcList {
		if fi.decl.Pos() <= o.Pos() && o.Pos() < fi.decl.End() {
			return a.scopeName(fi, a.innermostLit(fi, o.Pos())), true
		}
	}
	return "", false
}

func (a *analyzer) heldOfLocal(f *localFact) []heldOut {
	var out []heldOut
	if f.ls.top {
		return nil
	}
	for k, m := range f.ls.m {
		if k.chain == "" {
			// the lock is itself a local variable
			if sc, ok := a.declScopeOf(k.root); ok {
				out = append(out, heldOut{"local " + sc, k.root.Name(), sc == f.v.scope, m})
				continue
			}
		}
		_, os, lf := a.lockOwner(k)
		out = append(out, heldOut{os, lf, false, m})
	}
	sortHeld(out)
	return out
}

func sortHeld(out []heldOut) {
	sort.Slice(out, func(i, j int) bool {
		if out[i].strct != out[j].strct {
			return out[i].strct < out[j].strct
		}
		if out[i].field != out[j].field {
			return out[i].field < out[j].field
		}
		return out[i].same && !out[j].same
	})
}

func heldStr(hs []heldOut) string {
	var s []string
	for _, h := range hs {
		md := "MR"
		if h.mode == modeW {
			md = "MW"
		}
		s = append(s, fmt.Sprintf("(mkLock %s %s %s, %s)", q(h.strct), q(h.field), cbool(h.same), md))
	}
	return strings.Join(s, "; ")
}

func posStr(p token.Position) string {
	return fmt.Sprintf("%s:%d", filepath.Base(p.Filename), p.Line)
}

func (a *analyzer) emitLocals(b *strings.Builder) int {
	var fs []*localFact
	for _, f := range a.lfacts {
		fs = append(fs, f)
	}
	sort.Slice(fs, func(i, j int) bool {
		x, y := fs[i], fs[j]
		fx, fy := filepath.Base(x.pos.Filename), filepath.Base(y.pos.Filename)
		if fx != fy {
			return fx < fy
		}
		if x.pos.Line != y.pos.Line {
			return x.pos.Line < y.pos.Line
		}
		if x.pos.Column != y.pos.Column {
			return x.pos.Column < y.pos.Column
		}
		return x.kind < y.kind
	})
	b.WriteString("(* ---- captured local variables as locations (struct \"local <declaring function>\", field <variable>) ---- *)\n")
	const chunk = 40
	nch := 0
	for i := 0; i < len(fs); i += chunk {
		nch++
		fmt.Fprintf(b, "Definition impl_local_facts_%d : list fact := [\n", nch)
		end := i + chunk
		if end > len(fs) {
			end = len(fs)
		}
		for j := i; j < end; j++ {
			f := fs[j]
			sep := ";"
			if j == end-1 {
				sep = ""
			}
			fmt.Fprintf(b, "  mkFact %s %s %s %s %c false false %s [%s] %s%s\n", q(f.fn), q(f.lit), q("local "+f.v.scope), q(f.v.name),
				f.kind, cbool(f.fresh), heldStr(a.heldOfLocal(f)), q(posStr(f.pos)), sep)
		}
		b.WriteString("].\n\n")
	}
	b.WriteString("Definition impl_local_facts : list fact :=\n  ")
	if nch == 0 {
		b.WriteString("[]")
	}
	for i := 1; i <= nch; i++ {
		if i > 1 {
			b.WriteString(" ++ ")
		}
		fmt.Fprintf(b, "impl_local_facts_%d", i)
	}
	b.WriteString(".\n\n")

	svs := append([]*sharedVar(nil), a.sharedList...)
	sort.Slice(svs, func(i, j int) bool {
		pi, pj := a.fset.Position(svs[i].obj.Pos()), a.fset.Position(svs[j].obj.Pos())
		fi, fj := filepath.Base(pi.Filename), filepath.Base(pj.Filename)
		if fi != fj {
			return fi < fj
		}
		return svs[i].obj.Pos() < svs[j].obj.Pos()
	})
	b.WriteString("(* the shared variables: declaring function, variable, how it is first captured, by which literal, where *)\n")
	b.WriteString("Definition impl_captures : list capture := [\n")
	for i, sv := range svs {
		sep := ";"
		if i == len(svs)-1 {
			sep = ""
		}
		fmt.Fprintf(b, "  mkCapture %s %s %s %s %s%s\n", q(sv.scope), q(sv.name), q(sv.how), q(sv.capLit), q(posStr(a.fset.Position(sv.capPos))), sep)
	}
	b.WriteString("].\n\n")
	return len(fs)
}

func (a *analyzer) emitSync(b *strings.Builder) {
	names := make([]string, 0, len(syncCallers))
	for n := range syncCallers {
		names = append(names, n)
	}
	sort.Strings(names)
	b.WriteString("(* ---- the synchronous-caller assumption, as data (checked by sync_callers_ok in Coq) ---- *)\n")
	b.WriteString("Definition impl_sync_assumed : list (string * nat) := [")
	for i, n := range names {
		if i > 0 {
			b.WriteString("; ")
		}
		fmt.Fprintf(b, "(%s, %d)", q(n), syncCallers[n])
	}
	b.WriteString("].\n\n")
	b.WriteString("(* every use of the function parameter inside the synchronous caller, and every lock operation of its own body *)\n")
	b.WriteString("Definition impl_sync_uses : list syncuse := [\n")
	var us []syncUse
	for _, n := range names {
		us = append(us, a.syncUses(n, syncCallers[n])...)
	}
	for i, u := range us {
		sep := ";"
		if i == len(us)-1 {
			sep = ""
		}
		fmt.Fprintf(b, "  mkSyncUse %s %d %s %s %s%s\n", q(u.fn), u.idx, q(u.param), q(u.kind), q(posStr(u.pos)), sep)
	}
	b.WriteString("].\n\n")
	var ss []*syncSite
	for _, s := range a.syncSites {
		ss = append(ss, s)
	}
	sort.Slice(ss, func(i, j int) bool {
		fx, fy := filepath.Base(ss[i].pos.Filename), filepath.Base(ss[j].pos.Filename)
		if fx != fy {
			return fx < fy
		}
		return ss[i].pos.Line < ss[j].pos.Line
	})
	b.WriteString("(* every library call of a synchronous caller whose function argument was analysed with the caller's locks: the locks\n   held at the call (l_same: relative to the object owning the cond argument) and the cond's locker *)\n")
	b.WriteString("Definition impl_sync_sites : list syncsite := [\n")
	for i, s := range ss {
		var hs []heldOut
		if !s.ls.top {
			for k, m := range s.ls.m {
				oc, os, lf := a.lockOwner(k)
				same := s.pathOK && os != "" && k.root == s.condRoot && oc == s.condBase
				hs = append(hs, heldOut{os, lf, same, m})
			}
		}
		sortHeld(hs)
		sep := ";"
		if i == len(ss)-1 {
			sep = ""
		}
		fmt.Fprintf(b, "  mkSyncSite %s %s %s %s %s %s [%s] %s%s\n", q(s.fn), q(s.lit), q(s.callee), q(s.arg), q(s.condStruct), q(s.locker),
			heldStr(hs), q(posStr(s.pos)), sep)
	}
	b.WriteString("].\n\n")
}
