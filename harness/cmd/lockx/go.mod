module lockx

go 1.23
