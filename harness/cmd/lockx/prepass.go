package main

import (
	"fmt"
	"go/ast"
	"go/token"
	"go/types"
	"strings"
)

func (a *analyzer) prepass() {
	a.parent = map[ast.Node]ast.Node{}
	a.litName = map[*ast.FuncLit]string{}
	a.varLits = map[types.Object][]*ast.FuncLit{}
	a.tracked = map[*ast.FuncLit]bool{}
	a.freshVar = map[types.Object]bool{}
	a.sliceParam = map[types.Object]bool{}
	a.escapePos = map[types.Object]token.Pos{}
	a.syncOK = map[string]bool{}
	a.ifaceImpls = map[*types.Func][]*types.Func{}
	for _, fi := range a.funcList {
		a.parents(fi.decl)
		a.nameLits(fi.decl.Body)
		a.trackFuncVars(fi)
		a.findFresh(fi)
		a.findSliceParams(fi)
	}
	for name, idx := range syncCallers {
		a.syncOK[name] = a.checkSyncCaller(name, idx)
	}
	a.shared = map[types.Object]*sharedVar{}
	a.litConc = map[*ast.FuncLit]string{}
	a.goneLits = map[*ast.FuncLit]bool{}
	for _, fi := range a.funcList {
		a.findGoneLits(fi)
	}
	for _, fi := range a.funcList {
		a.findShared(fi)
	}
	a.findCondLockers()
}

func (a *analyzer) parents(root ast.Node) {
	var stack []ast.Node
	ast.Inspect(root, func(n ast.Node) bool {
		if n == nil {
			stack = stack[:len(stack)-1]
			return true
		}
		if len(stack) > 0 {
			a.parent[n] = stack[len(stack)-1]
		}
		stack = append(stack, n)
		return true
	})
}

// nameLits numbers function literals "$1", "$2", "$1$1" ... in source order inside a top-level function.
func (a *analyzer) nameLits(body *ast.BlockStmt) {
	var rec func(n ast.Node, prefix string)
	rec = func(n ast.Node, prefix string) {
		k := 0
		ast.Inspect(n, func(m ast.Node) bool {
			if l, ok := m.(*ast.FuncLit); ok {
				k++
				nm := fmt.Sprintf("%s$%d", prefix, k)
				a.litName[l] = nm
				rec(l.Body, nm)
				return false
			}
			return true
		})
	}
	rec(body, "")
}

// enclosingLit returns the innermost function literal strictly containing n (nil: directly in the top-level function).
func (a *analyzer) enclosingLit(n ast.Node) *ast.FuncLit {
	for p := a.parent[n]; p != nil; p = a.parent[p] {
		if l, ok := p.(*ast.FuncLit); ok {
			return l
		}
	}
	return nil
}

func isFuncish(t types.Type) bool {
	switch u := t.Underlying().(type) {
	case *types.Signature:
		return true
	case *types.Slice:
		_, ok := u.Elem().Underlying().(*types.Signature)
		return ok
	}
	return false
}

// trackFuncVars finds local variables of function (or slice-of-function) type all of whose uses are: being assigned a
// literal / append of literals, being called, len(), range, nil comparison. The literals flowing into such a variable
// get their entry lockset from the call sites of the variable (like an unexported helper). Any other use makes the
// variable, and everything it aliases, escaped: its literals are then analysed with the empty entry lockset.
func (a *analyzer) trackFuncVars(fi *funcInfo) {
	lits := map[types.Object][]*ast.FuncLit{}
	escaped := map[types.Object]bool{}
	alias := map[types.Object][]types.Object{} // v -> range aliases of v
	cands := map[types.Object]bool{}
	ast.Inspect(fi.decl.Body, func(n ast.Node) bool {
		if id, ok := n.(*ast.Ident); ok {
			if obj, ok := a.info.Defs[id].(*types.Var); ok && obj != nil && !obj.IsField() && isFuncish(obj.Type()) {
				cands[obj] = true
			}
		}
		return true
	})
	if len(cands) == 0 {
		return
	}
	addRHS := func(v types.Object, rhs ast.Expr) {
		rhs = unparen(rhs)
		switch r := rhs.(type) {
		case *ast.FuncLit:
			lits[v] = append(lits[v], r)
		case *ast.CallExpr:
			if id, ok := unparen(r.Fun).(*ast.Ident); ok {
				if b, ok := a.info.Uses[id].(*types.Builtin); ok && b.Name() == "append" && len(r.Args) > 0 {
					if first, ok := unparen(r.Args[0]).(*ast.Ident); ok && a.objOf(first) == v {
						for _, x := range r.Args[1:] {
							if l, ok := unparen(x).(*ast.FuncLit); ok {
								lits[v] = append(lits[v], l)
							}
						}
						return
					}
				}
			}
		}
	}
	ast.Inspect(fi.decl.Body, func(n ast.Node) bool {
		switch s := n.(type) {
		case *ast.AssignStmt:
			if len(s.Lhs) == len(s.Rhs) {
				for i, l := range s.Lhs {
					if id, ok := l.(*ast.Ident); ok {
						if v := a.objOf(id); v != nil && cands[v] {
							addRHS(v, s.Rhs[i])
						}
					}
				}
			}
		case *ast.ValueSpec:
			if len(s.Names) == len(s.Values) {
				for i, id := range s.Names {
					if v := a.objOf(id); v != nil && cands[v] {
						addRHS(v, s.Values[i])
					}
				}
			}
		case *ast.RangeStmt:
			if x, ok := unparen(s.X).(*ast.Ident); ok {
				if v := a.objOf(x); v != nil && cands[v] {
					if val, ok := s.Value.(*ast.Ident); ok {
						if w := a.objOf(val); w != nil {
							alias[v] = append(alias[v], w)
							cands[w] = true
						}
					}
				}
			}
		}
		return true
	})
	// classify uses
	ast.Inspect(fi.decl.Body, func(n ast.Node) bool {
		id, ok := n.(*ast.Ident)
		if !ok {
			return true
		}
		v := a.info.Uses[id]
		if v == nil || !cands[v] {
			return true
		}
		p := a.parent[id]
		for {
			if pe, ok := p.(*ast.ParenExpr); ok {
				p = a.parent[pe]
				continue
			}
			break
		}
		switch pp := p.(type) {
		case *ast.CallExpr:
			if unparen(pp.Fun) == ast.Expr(id) {
				return true // called
			}
			if fid, ok := unparen(pp.Fun).(*ast.Ident); ok {
				if b, ok := a.info.Uses[fid].(*types.Builtin); ok {
					if b.Name() == "len" || b.Name() == "cap" {
						return true
					}
					if b.Name() == "append" && len(pp.Args) > 0 && unparen(pp.Args[0]) == ast.Expr(id) {
						// result must be assigned back to the same variable
						if as, ok := a.parent[pp].(*ast.AssignStmt); ok && len(as.Lhs) == 1 {
							if l, ok := as.Lhs[0].(*ast.Ident); ok && a.objOf(l) == v {
								return true
							}
						}
					}
				}
			}
		case *ast.AssignStmt:
			for _, l := range pp.Lhs {
				if l == ast.Expr(id) {
					return true
				}
			}
		case *ast.RangeStmt:
			if unparen(pp.X) == ast.Expr(id) {
				return true
			}
		case *ast.BinaryExpr:
			if pp.Op == token.EQL || pp.Op == token.NEQ {
				other := pp.X
				if unparen(other) == ast.Expr(id) {
					other = pp.Y
				}
				if oid, ok := unparen(other).(*ast.Ident); ok && oid.Name == "nil" {
					return true
				}
			}
		}
		escaped[v] = true
		return true
	})
	// propagate escape from alias to source, to a fixpoint
	for ch := true; ch; {
		ch = false
		for v, ws := range alias {
			for _, w := range ws {
				if escaped[w] && !escaped[v] {
					escaped[v] = true
					ch = true
				}
			}
		}
	}
	for v, ls := range lits {
		if escaped[v] {
			continue
		}
		a.varLits[v] = append(a.varLits[v], ls...)
		for _, l := range ls {
			a.tracked[l] = true
		}
		for _, w := range alias[v] {
			a.varLits[w] = append(a.varLits[w], ls...)
		}
	}
}

func unparen(e ast.Expr) ast.Expr {
	for {
		p, ok := e.(*ast.ParenExpr)
		if !ok {
			return e
		}
		e = p.X
	}
}

func (a *analyzer) objOf(id *ast.Ident) types.Object {
	if o := a.info.Defs[id]; o != nil {
		return o
	}
	return a.info.Uses[id]
}

func isStructValue(t types.Type) bool {
	_, ok := t.Underlying().(*types.Struct)
	return ok
}

// findFresh computes, for the local variables of one top-level function that denote a not-yet-published object
// (kind A: `v := &T{..}` / `new(T)`; kind B: a variable of struct VALUE type, including value parameters/receivers),
// the position of their first escaping use. An access through such a variable before that position is "fresh".
func (a *analyzer) findFresh(fi *funcInfo) {
	kindA := map[types.Object]bool{}
	kindB := map[types.Object]bool{}
	declLit := map[types.Object]*ast.FuncLit{}
	consider := func(id *ast.Ident, rhs ast.Expr) {
		v, ok := a.info.Defs[id].(*types.Var)
		if !ok || v == nil || v.IsField() {
			return
		}
		declLit[v] = a.enclosingLit(id)
		if isStructValue(v.Type()) {
			kindB[v] = true
			return
		}
		if rhs == nil {
			return
		}
		switch r := unparen(rhs).(type) {
		case *ast.UnaryExpr:
			if r.Op == token.AND {
				if _, ok := unparen(r.X).(*ast.CompositeLit); ok {
					kindA[v] = true
				}
			}
		case *ast.CallExpr:
			if fid, ok := unparen(r.Fun).(*ast.Ident); ok {
				if b, ok := a.info.Uses[fid].(*types.Builtin); ok && b.Name() == "new" {
					kindA[v] = true
				}
			}
		}
	}
	ast.Inspect(fi.decl, func(n ast.Node) bool {
		switch s := n.(type) {
		case *ast.AssignStmt:
			if s.Tok == token.DEFINE {
				for i, l := range s.Lhs {
					if id, ok := l.(*ast.Ident); ok {
						var rhs ast.Expr
						if len(s.Lhs) == len(s.Rhs) {
							rhs = s.Rhs[i]
						}
						consider(id, rhs)
					}
				}
			}
		case *ast.ValueSpec:
			for i, id := range s.Names {
				var rhs ast.Expr
				if len(s.Names) == len(s.Values) {
					rhs = s.Values[i]
				}
				consider(id, rhs)
			}
		case *ast.RangeStmt:
			if s.Tok == token.DEFINE {
				if id, ok := s.Key.(*ast.Ident); ok {
					consider(id, nil)
				}
				if id, ok := s.Value.(*ast.Ident); ok {
					consider(id, nil)
				}
			}
		case *ast.Field: // parameters, receivers, results
			for _, id := range s.Names {
				consider(id, nil)
			}
		case *ast.TypeSwitchStmt:
			// the per-clause implicit objects are value copies as well
		}
		return true
	})
	const never = token.Pos(1 << 40)
	for v := range kindA {
		a.freshVar[v] = true
		a.escapePos[v] = never
	}
	for v := range kindB {
		a.freshVar[v] = true
		a.escapePos[v] = never
	}
	esc := func(v types.Object, p token.Pos) {
		if p < a.escapePos[v] {
			a.escapePos[v] = p
		}
	}
	ast.Inspect(fi.decl, func(n ast.Node) bool {
		id, ok := n.(*ast.Ident)
		if !ok {
			return true
		}
		v := a.info.Uses[id]
		if v == nil || !a.freshVar[v] {
			return true
		}
		// a use inside a function literal deeper than the declaration: escapes where the outermost such literal is created
		var outer *ast.FuncLit
		for l := a.enclosingLit(id); l != nil && l != declLit[v]; l = a.enclosingLit(l) {
			outer = l
		}
		if outer != nil {
			esc(v, outer.Pos())
			return true
		}
		p := a.parent[id]
		if sel, ok := p.(*ast.SelectorExpr); ok && sel.X == ast.Expr(id) {
			if s := a.info.Selections[sel]; s != nil && s.Kind() == types.FieldVal {
				return true
			}
			esc(v, id.Pos()) // method call / method value on the object
			return true
		}
		if kindB[v] {
			if u, ok := p.(*ast.UnaryExpr); ok && u.Op == token.AND {
				esc(v, id.Pos())
			}
			return true // a plain use of a struct value is a copy
		}
		esc(v, id.Pos())
		return true
	})
}

// checkSyncCaller verifies that the function-typed parameter idx of library function name is only ever called
// directly (or compared with nil) in the function's own body, outside any go statement or function literal.
func (a *analyzer) checkSyncCaller(name string, idx int) bool {
	for _, fi := range a.funcList {
		if fi.name != name {
			continue
		}
		sig := fi.obj.Type().(*types.Signature)
		if idx >= sig.Params().Len() {
			return false
		}
		param := sig.Params().At(idx)
		ok := true
		ast.Inspect(fi.decl.Body, func(n ast.Node) bool {
			id, isID := n.(*ast.Ident)
			if !isID || a.info.Uses[id] != types.Object(param) {
				return true
			}
			if a.enclosingLit(id) != nil {
				ok = false
				return true
			}
			switch p := a.parent[id].(type) {
			case *ast.CallExpr:
				if p.Fun == ast.Expr(id) {
					if _, isGo := a.parent[p].(*ast.GoStmt); !isGo {
						if _, isDefer := a.parent[p].(*ast.DeferStmt); !isDefer {
							return true
						}
					}
				}
			case *ast.BinaryExpr:
				if p.Op == token.EQL || p.Op == token.NEQ {
					return true
				}
			}
			ok = false
			return true
		})
		return ok
	}
	return false
}

// ---------------------------------------------------------------------------------------------------------------
// types helpers
// ---------------------------------------------------------------------------------------------------------------

func deref(t types.Type) types.Type {
	if p, ok := t.Underlying().(*types.Pointer); ok {
		return p.Elem()
	}
	return t
}

// structName names a struct type of the library: the declared name (generic origin) for named types of this package,
// "struct{f1,f2}" for anonymous struct types, "" for everything else.
func (a *analyzer) structName(t types.Type) string {
	t = deref(t)
	if tp, ok := t.(*types.TypeParam); ok {
		t = tp.Constraint()
	}
	if n, ok := t.(*types.Named); ok {
		if _, isStruct := n.Underlying().(*types.Struct); !isStruct {
			return ""
		}
		if n.Obj().Pkg() == a.pkg {
			return n.Origin().Obj().Name()
		}
		return ""
	}
	if al, ok := t.(*types.Alias); ok {
		return a.structName(types.Unalias(al))
	}
	if s, ok := t.(*types.Struct); ok {
		var names []string
		for i := 0; i < s.NumFields(); i++ {
			names = append(names, s.Field(i).Name())
		}
		return "struct{" + strings.Join(names, ",") + "}"
	}
	return ""
}

func typeFullName(t types.Type) string {
	t = deref(t)
	if n, ok := t.(*types.Named); ok && n.Obj().Pkg() != nil {
		return n.Obj().Pkg().Path() + "." + n.Obj().Name()
	}
	return ""
}

// fieldClass: how a field of the given type is treated.
//
//	"sync"   a synchronisation object held by value (internally synchronised; never an access fact)
//	"atomic" a sync/atomic typed value (method calls are atomic operations)
//	""       ordinary memory
func fieldClass(t types.Type) string {
	if _, isPtr := t.Underlying().(*types.Pointer); isPtr {
		return ""
	}
	if n, ok := t.(*types.Named); ok && n.Obj().Pkg() != nil {
		switch n.Obj().Pkg().Path() {
		case "sync":
			switch n.Obj().Name() {
			case "Mutex", "RWMutex", "Once", "WaitGroup", "Cond":
				return "sync"
			}
		case "sync/atomic":
			return "atomic"
		}
	}
	return ""
}

// pathOf resolves an expression to an access path root.f1.f2 (derefs, parens and & are transparent).
func (a *analyzer) pathOf(e ast.Expr) (types.Object, string, bool) {
	switch x := e.(type) {
	case *ast.Ident:
		if v, ok := a.objOf(x).(*types.Var); ok {
			return v, "", true
		}
	case *ast.ParenExpr:
		return a.pathOf(x.X)
	case *ast.StarExpr:
		return a.pathOf(x.X)
	case *ast.UnaryExpr:
		if x.Op == token.AND {
			return a.pathOf(x.X)
		}
	case *ast.SelectorExpr:
		if s := a.info.Selections[x]; s != nil && s.Kind() == types.FieldVal {
			r, c, ok := a.pathOf(x.X)
			if ok {
				if c == "" {
					return r, x.Sel.Name, true
				}
				return r, c + "." + x.Sel.Name, true
			}
		}
	}
	return nil, "", false
}

// lockOwner splits a lock path into (owner chain, owner struct name, lock field): the owner is the last library
// struct along the chain. A lock that is a plain local variable has owner struct "" and its own name as field.
func (a *analyzer) lockOwner(k lockKey) (ownerChain, ownerStruct, lockField string) {
	if k.chain == "" {
		return "", "", k.root.Name()
	}
	comps := strings.Split(k.chain, ".")
	t := k.root.Type()
	last := -1
	lastName := ""
	for i := 0; ; i++ {
		if n := a.structName(t); n != "" {
			last, lastName = i, n
		}
		if i == len(comps) {
			break
		}
		st, ok := deref(t).Underlying().(*types.Struct)
		if !ok {
			// e.g. an interface (sync.Locker): cannot descend further
			break
		}
		var ft types.Type
		for j := 0; j < st.NumFields(); j++ {
			if st.Field(j).Name() == comps[i] {
				ft = st.Field(j).Type()
			}
		}
		if ft == nil {
			break
		}
		t = ft
	}
	if last < 0 {
		return "", "", k.root.Name() + "." + k.chain
	}
	if last >= len(comps) {
		last = len(comps) - 1 // the lock itself is a struct of the library?! keep the final component as the field
		lastName = ""
	}
	return strings.Join(comps[:last], "."), lastName, strings.Join(comps[last:], ".")
}

// findSliceParams collects the slice-typed parameters (not receivers) of a function and of its literals.
func (a *analyzer) findSliceParams(fi *funcInfo) {
	add := func(ft *ast.FuncType) {
		if ft == nil || ft.Params == nil {
			return
		}
		for _, f := range ft.Params.List {
			for _, n := range f.Names {
				if v, ok := a.info.Defs[n].(*types.Var); ok && v != nil {
					if _, isSlice := v.Type().Underlying().(*types.Slice); isSlice {
						a.sliceParam[v] = true
					}
				}
			}
		}
	}
	add(fi.decl.Type)
	ast.Inspect(fi.decl.Body, func(n ast.Node) bool {
		if l, ok := n.(*ast.FuncLit); ok {
			add(l.Type)
		}
		return true
	})
}
