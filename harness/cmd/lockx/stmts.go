package main

import (
	"fmt"
	"go/ast"
	"go/token"
	"go/types"
	"os"
	"path/filepath"
)

type jump struct {
	label         string
	isLoop        bool
	breaks, conts []state
}

// walker analyses one function body (top-level function or function literal).
type walker struct {
	a            *analyzer
	top          *funcInfo
	lit          string // "" for the top-level function body, "$1$2" for literals
	jumps        []*jump
	exit         state
	pendingLabel string
	elemW        bool // the write being walked goes to an element reached through the field, not to the field word
}

// analyzeBody runs a body from the given entry lockset; returns the lockset at its exits (after its own deferred
// actions) and whether any exit is reachable.
func (w *walker) analyzeBody(body *ast.BlockStmt, entry lockset, lit string) (lockset, bool) {
	sub := &walker{a: w.a, top: w.top, lit: lit, exit: deadState()}
	st := sub.block(body.List, state{ls: entry.clone()})
	if !st.dead {
		sub.doExit(st)
	}
	if sub.exit.dead {
		return topLS(), false
	}
	return sub.exit.ls, true
}

// doExit runs the registered deferred actions in LIFO order from the lockset at an exit point.
func (w *walker) doExit(st state) {
	ls := st.ls.clone()
	for i := len(st.defers) - 1; i >= 0; i-- {
		d := st.defers[i]
		switch {
		case d.unlock != nil:
			if !ls.top {
				delete(ls.m, *d.unlock)
			}
		case d.lit != nil:
			if out, ok := w.analyzeBody(d.lit.Body, ls, w.a.litName[d.lit]); ok {
				ls = out
			}
		case d.call != nil:
			tmp := state{ls: ls}
			w.libContribute(d.call, &tmp, 0)
		}
	}
	w.exit = meetState(w.exit, state{ls: ls})
}

func (w *walker) block(list []ast.Stmt, st state) state {
	for _, s := range list {
		if st.dead {
			// unreachable code is still walked (with the optimistic element) so that its literals get names/facts;
			// nothing in this repository depends on it.
			break
		}
		st = w.stmt(s, st)
	}
	return st
}

func (w *walker) takeLabel() string {
	l := w.pendingLabel
	w.pendingLabel = ""
	return l
}

func (w *walker) findJump(label string, needLoop bool) *jump {
	for i := len(w.jumps) - 1; i >= 0; i-- {
		j := w.jumps[i]
		if label != "" {
			if j.label == label {
				return j
			}
			continue
		}
		if !needLoop || j.isLoop {
			return j
		}
	}
	return nil
}

func (w *walker) killVar(id *ast.Ident, st *state) {
	if st.ls.top {
		return
	}
	obj := w.a.objOf(id)
	if obj == nil {
		return
	}
	for k := range st.ls.m {
		if k.root == obj {
			delete(st.ls.m, k)
		}
	}
}

// tryLockCond recognises `x.mu.TryLock()` / `x.mu.TryRLock()` (optionally negated) used directly as a condition.
func (w *walker) tryLockCond(e ast.Expr) (key lockKey, mode int, neg, ok bool) {
	e = unparen(e)
	if u, isU := e.(*ast.UnaryExpr); isU && u.Op == token.NOT {
		neg = true
		e = unparen(u.X)
	}
	c, isCall := e.(*ast.CallExpr)
	if !isCall {
		return
	}
	sel, isSel := unparen(c.Fun).(*ast.SelectorExpr)
	if !isSel {
		return
	}
	f := w.calleeOf(sel)
	if f == nil || f.Pkg() == nil || f.Pkg().Path() != "sync" {
		return
	}
	switch f.Name() {
	case "TryLock":
		mode = modeW
	case "TryRLock":
		mode = modeR
	default:
		return
	}
	r, ch, pok := w.a.pathOf(sel.X)
	if !pok {
		return
	}
	return lockKey{r, ch}, mode, neg, true
}

func (w *walker) stmt(s ast.Stmt, st state) state {
	a := w.a
	switch x := s.(type) {
	case nil, *ast.EmptyStmt:
		return st
	case *ast.BlockStmt:
		return w.block(x.List, st)
	case *ast.LabeledStmt:
		w.pendingLabel = x.Label.Name
		return w.stmt(x.Stmt, st)
	case *ast.ExprStmt:
		if c, ok := unparen(x.X).(*ast.CallExpr); ok {
			if id, ok := unparen(c.Fun).(*ast.Ident); ok {
				if b, ok := a.info.Uses[id].(*types.Builtin); ok && b.Name() == "panic" {
					for _, arg := range c.Args {
						w.expr(arg, false, &st)
					}
					w.doExit(st)
					return deadState()
				}
			}
		}
		w.expr(x.X, false, &st)
		return st
	case *ast.SendStmt:
		w.expr(x.Chan, false, &st)
		w.expr(x.Value, false, &st)
		return st
	case *ast.IncDecStmt:
		w.expr(x.X, true, &st)
		return st
	case *ast.AssignStmt:
		for _, r := range x.Rhs {
			w.expr(r, false, &st)
		}
		if len(x.Lhs) == len(x.Rhs) {
			for i, l := range x.Lhs {
				w.retention(l, x.Rhs[i], &st)
			}
		}
		for _, l := range x.Lhs {
			if id, ok := unparen(l).(*ast.Ident); ok {
				if x.Tok != token.DEFINE {
					w.killVar(id, &st)
				}
				w.localAccess(id, true, &st)
				continue
			}
			w.expr(l, true, &st)
		}
		return st
	case *ast.DeclStmt:
		if gd, ok := x.Decl.(*ast.GenDecl); ok {
			for _, sp := range gd.Specs {
				if vs, ok := sp.(*ast.ValueSpec); ok {
					for _, v := range vs.Values {
						w.expr(v, false, &st)
					}
					for _, id := range vs.Names {
						w.localAccess(id, true, &st)
					}
				}
			}
		}
		return st
	case *ast.GoStmt:
		w.goStmt(x, &st)
		return st
	case *ast.DeferStmt:
		w.deferStmt(x, &st)
		return st
	case *ast.ReturnStmt:
		for _, r := range x.Results {
			w.expr(r, false, &st)
		}
		w.resultWrites(x, &st)
		w.doExit(st)
		return deadState()
	case *ast.BranchStmt:
		label := ""
		if x.Label != nil {
			label = x.Label.Name
		}
		switch x.Tok {
		case token.BREAK:
			if j := w.findJump(label, false); j != nil {
				j.breaks = append(j.breaks, st.clone())
			}
			return deadState()
		case token.CONTINUE:
			if j := w.findJump(label, true); j != nil {
				j.conts = append(j.conts, st.clone())
			}
			return deadState()
		case token.FALLTHROUGH:
			return st
		default:
			fmt.Fprintf(os.Stderr, "lockx: unsupported goto at %s\n", a.fset.Position(x.Pos()))
			os.Exit(1)
		}
	case *ast.IfStmt:
		if x.Init != nil {
			st = w.stmt(x.Init, st)
		}
		thenSt, elseSt := state{}, state{}
		if key, mode, neg, ok := w.tryLockCond(x.Cond); ok {
			a.nLockOps++
			w.expr(unparen(x.Cond), false, &st) // reads of the receiver path (the call itself acquires nothing there)
			thenSt, elseSt = st.clone(), st.clone()
			tgt := &thenSt
			if neg {
				tgt = &elseSt
			}
			if !tgt.ls.top {
				tgt.ls.m[key] = mode
			}
		} else {
			w.expr(x.Cond, false, &st)
			thenSt, elseSt = st.clone(), st.clone()
		}
		thenSt = w.block(x.Body.List, thenSt)
		if x.Else != nil {
			elseSt = w.stmt(x.Else, elseSt)
		}
		return meetState(thenSt, elseSt)
	case *ast.ForStmt:
		if x.Init != nil {
			st = w.stmt(x.Init, st)
		}
		j := &jump{label: w.takeLabel(), isLoop: true}
		w.jumps = append(w.jumps, j)
		head := st
		var exitSt state
		for iter := 0; ; iter++ {
			h := head.clone()
			if x.Cond != nil {
				w.expr(x.Cond, false, &h)
			}
			afterCond := h.clone()
			j.breaks, j.conts = nil, nil
			b := w.block(x.Body.List, h)
			for _, c := range j.conts {
				b = meetState(b, c)
			}
			if x.Post != nil && !b.dead {
				b = w.stmt(x.Post, b)
			}
			exitSt = deadState()
			if x.Cond != nil {
				exitSt = afterCond
			}
			for _, br := range j.breaks {
				exitSt = meetState(exitSt, br)
			}
			nh := meetState(head, b)
			if eqState(nh, head) || iter > 20 {
				break
			}
			head = nh
		}
		w.jumps = w.jumps[:len(w.jumps)-1]
		return exitSt
	case *ast.RangeStmt:
		w.expr(x.X, false, &st)
		j := &jump{label: w.takeLabel(), isLoop: true}
		w.jumps = append(w.jumps, j)
		head := st
		var exitSt state
		for iter := 0; ; iter++ {
			h := head.clone()
			for _, kv := range []ast.Expr{x.Key, x.Value} {
				if kv == nil {
					continue
				}
				if id, ok := unparen(kv).(*ast.Ident); ok {
					if x.Tok != token.DEFINE {
						w.killVar(id, &h)
					}
					w.localAccess(id, true, &h)
				} else {
					w.expr(kv, true, &h)
				}
			}
			j.breaks, j.conts = nil, nil
			b := w.block(x.Body.List, h)
			for _, c := range j.conts {
				b = meetState(b, c)
			}
			exitSt = head.clone()
			for _, br := range j.breaks {
				exitSt = meetState(exitSt, br)
			}
			nh := meetState(head, b)
			if eqState(nh, head) || iter > 20 {
				exitSt = meetState(exitSt, nh)
				break
			}
			head = nh
		}
		w.jumps = w.jumps[:len(w.jumps)-1]
		return exitSt
	case *ast.SwitchStmt:
		if x.Init != nil {
			st = w.stmt(x.Init, st)
		}
		if x.Tag != nil {
			w.expr(x.Tag, false, &st)
		}
		return w.clauses(x.Body.List, st, false)
	case *ast.TypeSwitchStmt:
		if x.Init != nil {
			st = w.stmt(x.Init, st)
		}
		switch as := x.Assign.(type) {
		case *ast.AssignStmt:
			for _, r := range as.Rhs {
				w.expr(r, false, &st)
			}
		case *ast.ExprStmt:
			w.expr(as.X, false, &st)
		}
		return w.clauses(x.Body.List, st, false)
	case *ast.SelectStmt:
		return w.clauses(x.Body.List, st, true)
	default:
		fmt.Fprintf(os.Stderr, "lockx: unsupported statement %T at %s\n", s, a.fset.Position(s.Pos()))
		os.Exit(1)
	}
	return st
}

// clauses handles the bodies of switch / type switch / select.
func (w *walker) clauses(list []ast.Stmt, st state, isSelect bool) state {
	j := &jump{label: w.takeLabel()}
	w.jumps = append(w.jumps, j)
	out := deadState()
	hasDefault := false
	for _, c := range list {
		cs := st.clone()
		var body []ast.Stmt
		switch cc := c.(type) {
		case *ast.CaseClause:
			if cc.List == nil {
				hasDefault = true
			}
			for _, e := range cc.List {
				if tv, ok := w.a.info.Types[e]; ok && tv.IsType() {
					continue
				}
				w.expr(e, false, &cs)
			}
			body = cc.Body
		case *ast.CommClause:
			if cc.Comm == nil {
				hasDefault = true
			} else {
				cs = w.stmt(cc.Comm, cs)
			}
			body = cc.Body
		}
		out = meetState(out, w.block(body, cs))
	}
	if !hasDefault && !isSelect {
		out = meetState(out, st)
	}
	for _, br := range j.breaks {
		out = meetState(out, br)
	}
	w.jumps = w.jumps[:len(w.jumps)-1]
	return out
}

func (w *walker) goStmt(g *ast.GoStmt, st *state) {
	a := w.a
	pos := a.fset.Position(g.Pos())
	rec := &gostmt{fn: w.top.name, lit: w.lit, pos: pos}
	a.gostmts[g.Pos()] = rec
	c := g.Call
	if lit, ok := unparen(c.Fun).(*ast.FuncLit); ok {
		for _, arg := range c.Args {
			w.expr(arg, false, st)
		}
		rec.target = "func literal " + a.litName[lit]
		inherit := emptyLS()
		if w.lit == "" && !st.ls.top {
			for _, h := range handoffs {
				if h.fn != w.top.name || h.file != filepath.Base(pos.Filename) {
					continue
				}
				for k, m := range st.ls.m {
					if k.root.Name() == h.rootName && k.chain == h.chain && m == modeW {
						inherit.m[k] = modeW
						rec.inherit = append(rec.inherit, k)
						delete(st.ls.m, k) // ownership moves to the new goroutine
					}
				}
			}
		}
		w.analyzeBody(lit.Body, inherit, a.litName[lit])
		return
	}
	if f := w.calleeOf(unparen(c.Fun)); f != nil {
		rec.target = f.Name()
		if fi := a.funcs[f]; fi != nil {
			rec.target = fi.name
		}
	} else {
		rec.target = "function value"
	}
	w.callEx(c, st, 1)
}

func (w *walker) deferStmt(d *ast.DeferStmt, st *state) {
	a := w.a
	c := d.Call
	if lit, ok := unparen(c.Fun).(*ast.FuncLit); ok {
		for _, arg := range c.Args {
			w.expr(arg, false, st)
		}
		st.defers = append(st.defers, deferItem{node: d, lit: lit})
		return
	}
	if sel, ok := unparen(c.Fun).(*ast.SelectorExpr); ok {
		if f := w.calleeOf(sel); f != nil && f.Pkg() != nil && f.Pkg().Path() == "sync" && (f.Name() == "Unlock" || f.Name() == "RUnlock") {
			a.nLockOps++
			w.recvExpr(sel.X, st)
			if r, ch, ok := a.pathOf(sel.X); ok {
				k := lockKey{r, ch}
				st.defers = append(st.defers, deferItem{node: d, unlock: &k})
			}
			return
		}
	}
	// receiver and arguments are evaluated now; the call happens at exit
	w.callEx(c, st, 2)
	st.defers = append(st.defers, deferItem{node: d, call: c})
}

// retention: `x.f = p` / `x.f = p[a:b]` where p is a slice-typed PARAMETER (for a variadic parameter: the caller's own
// slice when it spreads one) stores the caller's memory in the library's state without copying it. Reported as a
// write fact on the synthetic field "<f> <- caller's slice <p>", which has no guard-table entry and therefore fails
// guard_ok (only this direct syntactic shape is recognised).
func (w *walker) retention(lhs, rhs ast.Expr, st *state) {
	a := w.a
	sel, ok := unparen(lhs).(*ast.SelectorExpr)
	if !ok {
		return
	}
	s := a.info.Selections[sel]
	if s == nil || s.Kind() != types.FieldVal {
		return
	}
	owner := a.ownerOf(s)
	if owner == "" {
		return
	}
	r := unparen(rhs)
	if sl, ok := r.(*ast.SliceExpr); ok {
		r = unparen(sl.X)
	}
	id, ok := r.(*ast.Ident)
	if !ok {
		return
	}
	v, ok := a.info.Uses[id].(*types.Var)
	if !ok || !a.sliceParam[v] {
		return
	}
	if root, _, pok := a.pathOf(sel.X); pok && a.freshVar[root] && sel.Pos() < a.escapePos[root] {
		return // stored into an object that is still private to this call
	}
	name := sel.Sel.Name + " <- caller's slice " + id.Name
	key := factKey{sel.Sel.Pos(), name, 'W'}
	if f := a.facts[key]; f != nil {
		f.ls = meetLS(f.ls, st.ls)
		return
	}
	a.facts[key] = &fact{fn: w.top.name, lit: w.lit, strct: owner, field: name, kind: 'W', ls: st.ls.clone(),
		pos: a.fset.Position(sel.Sel.Pos())}
}
