package main

import (
	"go/ast"
	"go/token"
	"go/types"
	"strings"
)

func (w *walker) expr(e ast.Expr, wr bool, st *state) {
	a := w.a
	switch x := e.(type) {
	case nil, *ast.BasicLit:
	case *ast.Ident:
		w.localAccess(x, wr, st)
	case *ast.ParenExpr:
		w.expr(x.X, wr, st)
	case *ast.SelectorExpr:
		sel := a.info.Selections[x]
		if sel == nil {
			return // qualified identifier
		}
		if sel.Kind() == types.FieldVal {
			w.fieldAccess(x, sel, wr, st)
			return
		}
		// method value that is not called here (x.wg.Done, x.Unsubscribe, stops.Stop): the method may run anywhere
		w.recvExpr(x.X, st)
		if f, ok := sel.Obj().(*types.Func); ok {
			if fi := a.funcs[f.Origin()]; fi != nil && !fi.exported {
				a.contribute(fi.obj, emptyLS())
			}
		}
	case *ast.IndexExpr:
		if tv, ok := a.info.Types[x.Index]; ok && tv.IsType() {
			w.expr(x.X, false, st) // generic instantiation
			return
		}
		// writing an element of a map/slice field counts as a write of the field (flagged as an element write)
		old := w.elemW
		w.elemW = wr
		w.expr(x.X, wr, st)
		w.elemW = false
		w.expr(x.Index, false, st)
		w.elemW = old
	case *ast.IndexListExpr:
		w.expr(x.X, false, st)
	case *ast.SliceExpr:
		w.expr(x.X, false, st)
		w.expr(x.Low, false, st)
		w.expr(x.High, false, st)
		w.expr(x.Max, false, st)
	case *ast.StarExpr:
		w.expr(x.X, false, st)
	case *ast.UnaryExpr:
		if x.Op == token.AND {
			w.addrOf(x.X, st)
			return
		}
		w.expr(x.X, false, st)
	case *ast.BinaryExpr:
		w.expr(x.X, false, st)
		w.expr(x.Y, false, st)
	case *ast.KeyValueExpr:
		w.expr(x.Key, false, st)
		w.expr(x.Value, false, st)
	case *ast.TypeAssertExpr:
		w.expr(x.X, false, st)
	case *ast.CallExpr:
		w.callEx(x, st, 0)
	case *ast.FuncLit:
		w.escapingLit(x, st)
	case *ast.CompositeLit:
		w.compositeLit(x, st)
	default:
		// type expressions: nothing to do
	}
}

func (w *walker) addrOf(e ast.Expr, st *state) {
	e = unparen(e)
	switch x := e.(type) {
	case *ast.CompositeLit:
		w.compositeLit(x, st)
	case *ast.Ident:
		w.localAccess(x, true, st) // a pointer to the variable leaves: treated as a write
	case *ast.SelectorExpr:
		if sel := w.a.info.Selections[x]; sel != nil && sel.Kind() == types.FieldVal {
			if fieldClass(sel.Type()) == "sync" {
				w.expr(x.X, false, st)
				return
			}
			w.fieldAccess(x, sel, true, st) // a pointer to the field leaves: treated as a write
			return
		}
		w.expr(e, false, st)
	default:
		w.expr(e, false, st)
	}
}

// ownerOf names the struct declaring the selected field (following embedded fields).
func (a *analyzer) ownerOf(sel *types.Selection) string {
	t := sel.Recv()
	idx := sel.Index()
	for i := 0; i < len(idx)-1; i++ {
		st, ok := deref(t).Underlying().(*types.Struct)
		if !ok {
			return ""
		}
		t = st.Field(idx[i]).Type()
	}
	return a.structName(t)
}

func (w *walker) fieldAccess(x *ast.SelectorExpr, sel *types.Selection, wr bool, st *state) {
	a := w.a
	a.nSel++
	owner := a.ownerOf(sel)
	ft := sel.Type()
	switch {
	case owner == "":
		// field of a foreign struct (sync.Cond.L, time.Timer.C, ...)
	case fieldClass(ft) == "sync":
		// synchronisation object held by value
	case isStructValue(ft) && a.structName(ft) != "" && w.isSelectorBase(x):
		// x.ping.C / x.ping.Add(..): the nested struct is only a path component
	default:
		kind := byte('R')
		if wr {
			kind = 'W'
		}
		w.record(x, owner, kind, false, st)
	}
	old := w.elemW
	w.elemW = false
	if id, ok := unparen(x.X).(*ast.Ident); ok && wr {
		if o := a.objOf(id); o != nil && isStructValue(o.Type()) {
			w.localAccess(id, true, st) // writing a field of a struct VALUE writes the variable
		}
	}
	w.expr(x.X, false, st)
	w.elemW = old
}

// isSelectorBase: x is the X operand of an enclosing selector expression.
func (w *walker) isSelectorBase(x ast.Expr) bool {
	p := w.a.parent[x]
	for {
		if pe, ok := p.(*ast.ParenExpr); ok {
			p = w.a.parent[pe]
			continue
		}
		break
	}
	if ps, ok := p.(*ast.SelectorExpr); ok && unparen(ps.X) == x {
		return true
	}
	return false
}

func (w *walker) record(x *ast.SelectorExpr, owner string, kind byte, atomic bool, st *state) {
	a := w.a
	key := factKey{x.Sel.Pos(), x.Sel.Name, kind}
	root, chain, ok := a.pathOf(x.X)
	if f := a.facts[key]; f != nil {
		f.ls = meetLS(f.ls, st.ls)
		return
	}
	f := &fact{fn: w.top.name, lit: w.lit, strct: owner, field: x.Sel.Name, kind: kind, atomic: atomic,
		ls: st.ls.clone(), root: root, chain: chain, pathOK: ok, pos: a.fset.Position(x.Sel.Pos()),
		elem: kind == 'W' && w.elemW}
	if ok && a.freshVar[root] && x.Pos() < a.escapePos[root] && a.valueChain(root, chain) {
		f.fresh = true
	}
	a.facts[key] = f
}

// valueChain: every component of the chain is a field held by value (so the access stays inside the root object).
func (a *analyzer) valueChain(root types.Object, chain string) bool {
	if chain == "" {
		return true
	}
	t := root.Type()
	for _, c := range strings.Split(chain, ".") {
		s, ok := deref(t).Underlying().(*types.Struct)
		if !ok {
			return false
		}
		var ft types.Type
		for i := 0; i < s.NumFields(); i++ {
			if s.Field(i).Name() == c {
				ft = s.Field(i).Type()
			}
		}
		if ft == nil || !isStructValue(ft) {
			return false
		}
		t = ft
	}
	return true
}

func (w *walker) compositeLit(x *ast.CompositeLit, st *state) {
	a := w.a
	var sname string
	var stype *types.Struct
	if tv, ok := a.info.Types[x]; ok && tv.Type != nil {
		if s, ok := deref(tv.Type).Underlying().(*types.Struct); ok {
			stype = s
			sname = a.structName(tv.Type)
		}
	}
	for i, el := range x.Elts {
		if stype == nil || sname == "" {
			w.expr(el, false, st)
			continue
		}
		var fname string
		var val ast.Expr
		pos := el.Pos()
		if kv, ok := el.(*ast.KeyValueExpr); ok {
			if id, ok := kv.Key.(*ast.Ident); ok {
				fname = id.Name
			}
			val = kv.Value
		} else if i < stype.NumFields() {
			fname = stype.Field(i).Name()
			val = el
		}
		w.expr(val, false, st)
		if fname == "" {
			continue
		}
		var ft types.Type
		for j := 0; j < stype.NumFields(); j++ {
			if stype.Field(j).Name() == fname {
				ft = stype.Field(j).Type()
			}
		}
		if ft != nil && fieldClass(ft) == "sync" {
			continue
		}
		key := factKey{pos, fname, 'W'}
		if f := a.facts[key]; f != nil {
			f.ls = meetLS(f.ls, st.ls)
			continue
		}
		a.facts[key] = &fact{fn: w.top.name, lit: w.lit, strct: sname, field: fname, kind: 'W', fresh: true,
			ls: st.ls.clone(), pos: a.fset.Position(pos)}
	}
}

func (w *walker) escapingLit(l *ast.FuncLit, st *state) {
	if w.a.tracked[l] {
		w.analyzeBody(l.Body, w.a.litEntry[l], w.a.litName[l])
		return
	}
	w.analyzeBody(l.Body, emptyLS(), w.a.litName[l])
}

// inlineLit: a literal run synchronously at this point by the current goroutine.
func (w *walker) inlineLit(l *ast.FuncLit, st *state) {
	if out, ok := w.analyzeBody(l.Body, st.ls, w.a.litName[l]); ok {
		st.ls = out
	}
}

func (w *walker) calleeOf(fun ast.Expr) *types.Func {
	a := w.a
	switch f := unparen(fun).(type) {
	case *ast.Ident:
		if fn, ok := a.info.Uses[f].(*types.Func); ok {
			return fn.Origin()
		}
	case *ast.SelectorExpr:
		if sel := a.info.Selections[f]; sel != nil {
			if sel.Kind() == types.MethodVal {
				if fn, ok := sel.Obj().(*types.Func); ok {
					return fn.Origin()
				}
			}
			return nil
		}
		if fn, ok := a.info.Uses[f.Sel].(*types.Func); ok {
			return fn.Origin()
		}
	case *ast.IndexExpr:
		return w.calleeOf(f.X)
	case *ast.IndexListExpr:
		return w.calleeOf(f.X)
	}
	return nil
}

// recvExpr evaluates the receiver operand of a method call / method value.
func (w *walker) recvExpr(x ast.Expr, st *state) {
	x = unparen(x)
	if s, ok := x.(*ast.SelectorExpr); ok {
		if sel := w.a.info.Selections[s]; sel != nil && sel.Kind() == types.FieldVal {
			ft := sel.Type()
			if fieldClass(ft) != "" || (isStructValue(ft) && w.a.structName(ft) != "") {
				// method on a value-held sync object / atomic / nested library struct: no memory read of the field itself
				w.a.nSel++
				w.expr(s.X, false, st)
				return
			}
		}
	}
	w.expr(x, false, st)
}

func (w *walker) args(c *ast.CallExpr, st *state, syncIdx int) {
	for i, arg := range c.Args {
		if l, ok := unparen(arg).(*ast.FuncLit); ok && i == syncIdx {
			w.inlineLit(l, st)
			continue
		}
		w.expr(arg, false, st)
	}
}

// callEx handles a call expression. how: 0 ordinary call, 1 `go` (callee starts with nothing held), 2 `defer`
// (operands evaluated now, callee contribution made at exit by doExit).
func (w *walker) callEx(c *ast.CallExpr, st *state, how int) {
	a := w.a
	fun := unparen(c.Fun)
	if tv, ok := a.info.Types[fun]; ok && tv.IsType() {
		w.args(c, st, -1)
		return
	}
	if lit, ok := fun.(*ast.FuncLit); ok {
		w.args(c, st, -1)
		w.inlineLit(lit, st)
		return
	}
	if id, ok := fun.(*ast.Ident); ok {
		if b, ok := a.info.Uses[id].(*types.Builtin); ok {
			w.builtin(b.Name(), c, st)
			return
		}
		// call through a tracked local function variable
		if v := a.info.Uses[id]; v != nil {
			if lits, ok := a.varLits[v]; ok {
				w.localAccess(id, false, st)
				w.args(c, st, -1)
				if how != 2 {
					for _, l := range lits {
						ls := w.mapLocksLit(st.ls, c, l)
						if how == 1 {
							ls = emptyLS()
						}
						a.contributeLit(l, ls)
					}
				}
				return
			}
		}
	}
	callee := w.calleeOf(fun)
	sel, _ := fun.(*ast.SelectorExpr)
	if callee != nil && callee.Pkg() != nil && sel != nil && a.info.Selections[sel] != nil {
		switch callee.Pkg().Path() {
		case "sync":
			switch callee.Name() {
			case "Lock", "RLock", "Unlock", "RUnlock", "TryLock", "TryRLock":
				a.nLockOps++
				w.recvExpr(sel.X, st)
				if r, ch, ok := a.pathOf(sel.X); ok && !st.ls.top && how == 0 {
					k := lockKey{r, ch}
					switch callee.Name() {
					case "Lock":
						st.ls.m[k] = modeW
					case "RLock":
						st.ls.m[k] = modeR
					case "Unlock", "RUnlock":
						delete(st.ls.m, k)
					}
					// TryLock/TryRLock outside an `if` condition: not assumed to have succeeded
				}
				return
			case "Do":
				if strings.HasSuffix(callee.FullName(), "sync.Once).Do") {
					w.recvExpr(sel.X, st)
					if how == 0 {
						w.args(c, st, 0)
					} else {
						w.args(c, st, -1)
					}
					return
				}
			case "Wait":
				if strings.HasSuffix(callee.FullName(), "sync.Cond).Wait") {
					a.nCondWait++ // releases and re-acquires cond.L: held before and after
				}
			}
		case "sync/atomic":
			if fs, ok := unparen(sel.X).(*ast.SelectorExpr); ok {
				if fsel := a.info.Selections[fs]; fsel != nil && fsel.Kind() == types.FieldVal && fieldClass(fsel.Type()) == "atomic" {
					a.nSel++
					if owner := a.ownerOf(fsel); owner != "" {
						kind := byte('W')
						if callee.Name() == "Load" {
							kind = 'R'
						}
						w.record(fs, owner, kind, true, st)
					}
					w.expr(fs.X, false, st)
					w.args(c, st, -1)
					return
				}
			}
		}
	}
	// operands
	if sel != nil && a.info.Selections[sel] != nil && a.info.Selections[sel].Kind() == types.MethodVal {
		w.recvExpr(sel.X, st)
	} else {
		w.expr(fun, false, st)
	}
	syncIdx := -1
	if callee != nil && callee.Pkg() == a.pkg && how == 0 {
		if fi := a.funcs[callee]; fi != nil {
			if idx, ok := syncCallers[fi.name]; ok && a.syncOK[fi.name] {
				syncIdx = idx
				w.syncSite(c, fi, idx, st)
			}
		}
	}
	w.args(c, st, syncIdx)
	if how != 2 {
		w.libContribute(c, st, how)
	}
}

func (w *walker) builtin(name string, c *ast.CallExpr, st *state) {
	for i, arg := range c.Args {
		if tv, ok := w.a.info.Types[arg]; ok && tv.IsType() {
			continue
		}
		wr := false
		switch name {
		case "delete", "copy", "clear":
			wr = i == 0
		}
		old := w.elemW
		w.elemW = wr
		w.expr(arg, wr, st)
		w.elemW = old
	}
}

// libTargets: the library functions a call may reach (a method of a library interface resolves to every implementer).
func (w *walker) libTargets(c *ast.CallExpr) []*funcInfo {
	a := w.a
	callee := w.calleeOf(unparen(c.Fun))
	if callee == nil {
		return nil
	}
	if fi := a.funcs[callee]; fi != nil {
		return []*funcInfo{fi}
	}
	sig, ok := callee.Type().(*types.Signature)
	if !ok || sig.Recv() == nil {
		return nil
	}
	iface, ok := sig.Recv().Type().Underlying().(*types.Interface)
	if !ok || callee.Pkg() != a.pkg {
		return nil
	}
	if r, ok := a.ifaceImpls[callee]; ok {
		var out []*funcInfo
		for _, f := range r {
			out = append(out, a.funcs[f])
		}
		return out
	}
	var impls []*types.Func
	for _, fi := range a.funcList {
		if fi.decl.Recv == nil || fi.decl.Name.Name != callee.Name() {
			continue
		}
		rsig := fi.obj.Type().(*types.Signature)
		rt := rsig.Recv().Type()
		if types.Implements(rt, iface) || types.Implements(types.NewPointer(deref(rt)), iface) {
			impls = append(impls, fi.obj)
		}
	}
	a.ifaceImpls[callee] = impls
	var out []*funcInfo
	for _, f := range impls {
		out = append(out, a.funcs[f])
	}
	return out
}

// libContribute records the caller's lockset (translated to the callee's formals) as one call site of every
// unexported library function the call may reach.
func (w *walker) libContribute(c *ast.CallExpr, st *state, how int) {
	for _, fi := range w.libTargets(c) {
		if fi.exported {
			continue
		}
		if how == 1 {
			w.a.contribute(fi.obj, emptyLS())
			continue
		}
		w.a.contribute(fi.obj, w.mapLocks(st.ls, c, fi))
	}
}

type binding struct {
	formal types.Object
	root   types.Object
	chain  string
}

func (w *walker) translate(ls lockset, binds []binding, keepOthers bool) lockset {
	if ls.top {
		return topLS()
	}
	out := emptyLS()
	put := func(k lockKey, m int) {
		if old, ok := out.m[k]; !ok || m > old {
			out.m[k] = m
		}
	}
	for k, m := range ls.m {
		if keepOthers {
			put(k, m)
		}
		for _, b := range binds {
			if k.root != b.root {
				continue
			}
			switch {
			case b.chain == "":
				put(lockKey{b.formal, k.chain}, m)
			case k.chain == b.chain:
				put(lockKey{b.formal, ""}, m)
			case strings.HasPrefix(k.chain, b.chain+"."):
				put(lockKey{b.formal, k.chain[len(b.chain)+1:]}, m)
			}
		}
	}
	return out
}

func (w *walker) paramObjs(ft *ast.FuncType) []types.Object {
	var out []types.Object
	if ft.Params == nil {
		return nil
	}
	for _, f := range ft.Params.List {
		if len(f.Names) == 0 {
			out = append(out, nil)
		}
		for _, n := range f.Names {
			out = append(out, w.a.info.Defs[n])
		}
	}
	return out
}

func (w *walker) mapLocks(ls lockset, c *ast.CallExpr, fi *funcInfo) lockset {
	a := w.a
	var binds []binding
	if fi.decl.Recv != nil && len(fi.decl.Recv.List) == 1 && len(fi.decl.Recv.List[0].Names) == 1 {
		if sel, ok := unparen(c.Fun).(*ast.SelectorExpr); ok {
			if r, ch, ok := a.pathOf(sel.X); ok {
				if formal := a.info.Defs[fi.decl.Recv.List[0].Names[0]]; formal != nil {
					binds = append(binds, binding{formal, r, ch})
				}
			}
		}
	}
	params := w.paramObjs(fi.decl.Type)
	for i, arg := range c.Args {
		if i >= len(params) || params[i] == nil {
			break
		}
		if i == len(params)-1 && fi.decl.Type.Params != nil {
			if last := fi.decl.Type.Params.List[len(fi.decl.Type.Params.List)-1]; last != nil {
				if _, variadic := last.Type.(*ast.Ellipsis); variadic {
					break
				}
			}
		}
		if r, ch, ok := a.pathOf(arg); ok {
			binds = append(binds, binding{params[i], r, ch})
		}
	}
	return w.translate(ls, binds, false)
}

func (w *walker) mapLocksLit(ls lockset, c *ast.CallExpr, l *ast.FuncLit) lockset {
	var binds []binding
	params := w.paramObjs(l.Type)
	for i, arg := range c.Args {
		if i >= len(params) || params[i] == nil {
			break
		}
		if r, ch, ok := w.a.pathOf(arg); ok {
			binds = append(binds, binding{params[i], r, ch})
		}
	}
	return w.translate(ls, binds, true) // a closure shares the variables of its enclosing function
}
