"""Per-property configuration of bin/check: stages (harness scenarios + model checks), non-triviality rules."""
import os, re, json, time, random
import vlib
from vlib import log

TRUSTED_BASE = [
    "Coq 8.16.1 kernel and vm_compute (no native_compute); coqchk re-check in the thorough tier",
    "no axioms: every Print Assumptions under Properties/*.v must report 'Closed under the global context'",
    "extraction: ExtrOcamlBasic only (Extract Inductive bool/option/unit/list/prod/sumbool, Extract Inlined Constant andb/orb/fst/snd/negb-style inlinings it declares); nat/positive/Z stay inductive; OCaml 4.13.1 + dune",
    "hand-written Gallina models (coq/Model/*.v) tied to /repo by the correspondence check: Go harness (harness/inpkg, overlaid in-package, rebuilt from /repo's working tree on every run) + checker/main.ml (history parsing, int encodings; linearization search untrusted, witness replayed through the extracted step)",
    "modelled, not verified: Go runtime and standard library (sync, sync/atomic, context, time, reflect, channels, scheduler fairness, memory model)",
]
ASSUMPTIONS = [
    "Go int offsets are unbounded (no overflow within 2^63 operations)",
    "each modelled critical section is atomic because it runs under the mutex named in the model (obligation of C11)",
]

class HarnessBuildError(Exception):
    pass

class RunCtx:
    def __init__(self, pid, tier, seed, ev, violations, known_hits, replay):
        self.pid, self.tier, self.seed, self.ev = pid, tier, seed, ev
        self.tier_budget = tier
        self.violations, self.known_hits, self.replay = violations, known_hits, replay
        self.evaluations = 0
        self.nontrivial = set()
        self.samples = []
        self.traces = 0
        self.stats = {}
        self.stage_log = []
        self.exhaustive = None
        self._exe = {}
        self.known = [k for k in vlib.known_findings() if k.get("property") == pid and k.get("status") == "known"]

    def exe(self, race=False, instrument=False):
        key = (race, instrument)
        if key not in self._exe:
            t0 = time.time()
            exe, out = vlib.build_harness(race=race, instrument=instrument)
            if exe is None:
                raise HarnessBuildError(out)
            log("harness %s built in %.1fs (%s)" % ("race" if race else "plain", time.time() - t0, out.strip().split("\n")[-1][:80] if out.strip() else "ok"))
            self._exe[key] = exe
        return self._exe[key]

    def budget(self, quick, thorough):
        return thorough if self.tier_budget == "thorough" else quick

    def violate(self, msg, obj, has_input=True):
        for k in self.known:
            if re.search(k["match"], msg):
                line = k["what"]
                if line not in self.known_hits:
                    self.known_hits.append(line)
                return
        self.violations.append((msg, obj, has_input))


def _canon(tokens):
    """canonical form of a program: values renamed in order of first appearance is overkill here; the op/out token string is
    already value-tagged, so distinct programs differ textually. We strip the case id."""
    return " ".join(tokens)

def corr_stage(scen, quick, thorough, params=None, feature=None, race=False, timeout=900, validate=True, seeds=1, instrument=False, shards=1, tparams=None):
    """A stage that runs a harness scenario and has the checker decide every K1/K2/F record."""
    def run(ctx):
        exe = ctx.exe(race=race, instrument=instrument)
        n = ctx.budget(quick, thorough)
        for si in range(seeds if ctx.tier_budget == "thorough" else 1):
            seed = ctx.seed + si * 7919
            t0 = time.time()
            prm = dict(params or {})
            if ctx.tier_budget == "thorough" and tparams:
                prm.update(tparams)
            rc, rec, txt = vlib.run_sharded(exe, scen, seed, n, prm, shards, timeout=timeout)
            entry = dict(scenario=scen, seed=seed, n=n, params=params or {}, rc=rc)
            if rc != 0:
                tail = "\n".join(txt.strip().split("\n")[-40:])
                kind = "hang/timeout" if ("panic: test timed out" in txt or rc == 124) else "panic/crash"
                ctx.violate("harness scenario %s (seed %d) ended abnormally (%s):\n%s" % (scen, seed, kind, tail),
                            dict(kind="scenario-abort", scenario=scen, seed=seed, n=n, params=params or {}, output=tail))
                ctx.stage_log.append(entry)
                continue
            recs = vlib.read_records(rec) if os.path.exists(rec) else []
            ncase = 0
            for line in recs:
                tok = line.split()
                if tok[0] in ("K1", "K2", "F"):
                    ncase += 1
                    if feature:
                        f = feature(tok)
                        if f:
                            ctx.nontrivial.add(f)
                    else:
                        ctx.nontrivial.add(" ".join(tok[3:]) if tok[0] != "F" else " ".join(tok[1:2] + tok[3:]))
                    if len(ctx.samples) < 6 and (ncase % max(1, n // 3) == 1 or n < 6):
                        ctx.samples.append(line[:600])
                elif tok[0] == "STAT":
                    ctx.stats[scen + "." + tok[1]] = ctx.stats.get(scen + "." + tok[1], 0) + int(tok[2])
                elif tok[0] == "MONITOR":
                    ctx.violate("monitor failed on an implementation history: " + line[:400],
                                dict(kind="monitor", scenario=scen, seed=seed, n=n, params=params or {}, record=line))
                elif tok[0] == "EXHAUSTIVE":
                    ctx.exhaustive = True
            ctx.evaluations += ncase
            if validate and ncase:
                rc2, mism, summ, out = vlib.run_checker(rec)
                entry["checker"] = summ
                if rc2 != 0:
                    ctx.violate("checker failed on records of %s: %s" % (scen, out[-800:]),
                                dict(kind="checker-error", scenario=scen, seed=seed, output=out[-3000:]), has_input=False)
                bycase = {}
                for line in recs:
                    tok = line.split()
                    if len(tok) > 2 and tok[0] in ("K1", "K2", "F"):
                        bycase[tok[2]] = line
                seen = set()
                for m in mism:
                    kv = dict(p.split("=", 1) for p in m.split()[1:] if "=" in p)
                    cid = kv.get("case", "?")
                    if cid in seen:
                        continue
                    seen.add(cid)
                    ctx.violate("implementation history rejected by the model (%s): %s" % (scen, m[:500]),
                                dict(kind="correspondence", scenario=scen, seed=seed, n=n, params=params or {}, mismatch=m,
                                     record=bycase.get(cid, "")[:20000]))
                ctx.traces += ncase
            entry["cases"] = ncase
            entry["wall_s"] = round(time.time() - t0, 2)
            ctx.stage_log.append(entry)
            try:
                os.remove(rec)
            except OSError:
                pass
    return run

# ---------------------------------------------------------------------------------------------------------------
# features (what makes a case non-trivial), per property
# ---------------------------------------------------------------------------------------------------------------
def _split(tok, sep):
    out, cur = [], []
    for t in tok:
        if t == sep:
            out.append(cur); cur = []
        else:
            cur.append(t)
    out.append(cur)
    return out

def feat_c13(tok):
    if tok[0] == "K1":
        body = tok[tok.index("#") + 1:]
        ops, outs = _split(body, "|")
        ops = [o for o in _split(ops, ";") if o]; outs = [o for o in _split(outs, ";") if o]
        # non-trivial: a Rollback that succeeded followed later by a Get returning a value (a replay)
        rolled = False
        for o, r in zip(ops, outs):
            if o == ["3"] and r == ["3"]:
                rolled = True
            if rolled and o == ["0"] and r[0] == "0":
                return "k1:" + " ".join(";".join(x) for x in ops)
        return None
    if tok[0] == "K2":
        body = " ".join(tok[tok.index("#") + 1:])
        # non-trivial: at least two threads' operations overlap and a Get returned a value
        if ": 0 : 0 " in body:
            return "k2:" + re.sub(r"\d+ \d+ :", ":", body)
    return None

def feat_c03(tok):
    if tok[0] == "F":
        body = tok[3:]
        args = body[:body.index("|")]
        # non-trivial: at least one negative and one positive offset, or a forced trim
        if tok[1] == "default_cleaner":
            offs = [int(x) for x in args[1:]]
            if any(o < 0 for o in offs) and any(o > 0 for o in offs):
                return "dc:" + " ".join(args)
        else:
            mx, tg, size = int(args[0]), int(args[1]), int(args[2])
            if size > mx:
                return "fc:" + " ".join(args)
    return None

PROPS = {}
HOOK_COMMITS = []
NOTES = "See DESIGN.md. All checks: bin/check <id> quick|thorough. Fix commits in /repo are listed in known_findings.json."

def feat_buf(kind):
    def f(tok):
        if tok[0] != "K2" or tok[1] != "buffer":
            return tok[1] + ":" + " ".join(tok[3:]) if tok[0] == "F" else None
        body = tok[tok.index("#") + 1:]
        recs = [r for r in _split(body, ";") if r]
        ops = []
        for r in recs:
            parts = _split(r, ":")
            if len(parts) == 3:
                ops.append((parts[1], parts[2]))
        cfg = tok[3:tok.index("#")]
        sig = " ".join(cfg) + "|" + ";".join(" ".join(o) + ">" + " ".join(r) for o, r in ops)
        if kind == "C01":   # two or more consumers reading values, with a multi-value batch
            readers = set(o[1] for o, r in ops if o[0] == "3" and r and r[0] == "0")
            batch = any(o[0] == "0" and int(o[1]) >= 2 for o, r in ops)
            return sig if (len(readers) >= 2 and batch) else None
        if kind == "C02":   # a successful rollback followed by a value read, or a Range
            rolled = False
            for o, r in ops:
                if o[0] == "6" and r == ["3"]:
                    rolled = True
                if (rolled and o[0] == "3" and r and r[0] == "0") or o[0] == "100":
                    return sig
            return None
        if kind == "C03":   # a forced trim made some Get fail, or a settled size observation under a non-default cleaner
            if cfg and cfg[0] != "0" and any(o[0] == "14" for o, r in ops):
                return sig
            return None
        if kind == "C05":   # a Get that parked (probe) or was cancelled while parked
            return sig if any(o[0] in ("15", "4") for o, r in ops) else None
        if kind == "C12":
            return sig if any(o[0] in ("10", "11") for o, r in ops) else None
        return sig
    return f

_BUF_NOTE = ("Trusted: Coq kernel, extraction (ExtrOcamlBasic), OCaml checker glue (the linearization search is untrusted only in the sense that a "
             "false ACCEPT would need a bug in replaying the extracted step), Go harness (logical clock, quiescence detection). Each Buffer/consumer "
             "method body is one atomic step because it runs under Buffer.mutex / consumer.mutex (obligation of C11); sync.Cond wake-ups are modelled in "
             "Model/WaitCond.v, not in the Buffer model (a parked Get is a pending operation). Go int offsets unbounded.")

PROPS["C01"] = dict(
    rule="BUFK1: seeded scripts of Put(batch 0-3)/NewConsumer/Get/Commit/Rollback/Diff/Size/Slice/Settled/Close/Range on a real Buffer (cooldown 0, "
         "Default/Fixed/custom cleaners), blocking calls left pending and probed at quiescent points; the recorded history (invocation/return ticks) "
         "must be a history of the extracted model with cleaner/shutdown steps interleaved freely. non-trivial = history in which >= 2 consumers "
         "received values and a multi-value batch was put; distinct by full op/result sequence",
    level_text="Theorems (Properties/C01.v) over every schedule of operations, cleaner runs and shutdown steps: the log is append-only and is the "
               "concatenation of the successful Put batches in lock order; every successful Get returns log[commit+delta] (>= base) and advances by one; "
               "per consumer the positions ever returned are exactly [start, high) and the pending window is commit..commit+delta-1. Tie: differential "
               "history acceptance of the real Buffer against the extracted model.",
    level_note=_BUF_NOTE,
    stages=[corr_stage("BUFK1", 500, 8000, feature=feat_buf("C01"), seeds=3)],
)
PROPS["C02"] = dict(
    rule="BUFK1 (see C01) including bigbuff.Range and Buffer.Range with scripted callbacks (continue/stop/panic); non-trivial = history with a "
         "successful Rollback followed by a value read, or a Range call",
    level_text="Theorems (Properties/C02.v): Rollback/Commit step specifications, empty commit/rollback are error no-ops, the pending window is "
               "commit..commit+delta-1, commits are permanent under every later schedule. Range/Buffer.Range are executable composites in the model "
               "(range_loop) tied by correspondence only (their theorems are not yet stated: partial).",
    level_note=_BUF_NOTE + " PARTIAL: the Range clauses are decided by correspondence with the executable composite, not by a separate theorem.",
    stages=[corr_stage("BUFK1", 500, 8000, feature=feat_buf("C02"), seeds=3, params={"salt": 2})],
)
PROPS["C04"] = dict(
    rule="C04T: 5 timed scenarios (single consumer, two consumers, closing the slowest, cooldown 0, FixedBufferCleaner) on an INSTRUMENTED build; each "
         "is run plain and then once per (synchronisation point hit by the scenario, k-th hit <= 3) with a delay of 2.5 cooldowns injected there "
         "(delay-bounded schedule sweep); after going quiet for 2 cooldowns + slack the settled Size/Slice must be what the model gives after the "
         "cleaner ran. non-trivial = a sweep run whose delay fired; distinct by (scenario, point, hit)",
    level_text="Theorems (Properties/C04.v) on the cleaner/timer wake-up protocol at lock-operation granularity with a notify-list condition variable: "
               "every reachable terminal state is clean (any number of changes, cooldown 0 or >0, every schedule), every run terminates, at most two "
               "timer firings after the last change; the pre-fix protocol is refuted (F3, fixed by 989b0cf). Tie: timed scenarios with a delay-bounded "
               "sweep over all instrumentation points of the real code, decided by the Buffer model's OSettled observation.",
    level_note="Wall-clock bound is proved as a step bound (timer firings) and measured with generous slack, not proved in real time. Trusted: the "
               "hand-written protocol model (no automatic tie between CleanerProto.v and buffer.go other than the sweep), sync.Cond notify-list semantics, "
               "instrumenter inserts calls only.",
    stages=[corr_stage("C04T", 2, 6, feature=lambda tok: tok[2] if (tok[0] == "K2" and "-p" in tok[2]) else None, instrument=True, shards=12,
                       params={"points": 12}, tparams={"points": 1000}, timeout=1200)],
)
PROPS["C05"] = dict(
    rule="C05S: a Get going to sleep races a Put / a second Put / its context's cancellation / Buffer.Close, plain and with a 2 ms delay injected at "
         "every instrumentation point the scenario hits (k-th hit <= 2); a Get still parked afterwards is probed and the model must agree it would "
         "park; after a failed Get the next Get must return the same position. BUFK1 histories with parked/cancelled Gets. non-trivial = history with a "
         "parked-then-probed or cancelled Get; distinct by op/result sequence and sweep point",
    level_text="Theorems (Properties/C05.v) on WaitCond at lock-operation granularity: terminal => (predicate or cancelled => returned and unlocked), "
               "nil only after a true predicate under the lock, error only if cancelled, termination; refuted when the watcher does not take the lock or "
               "the loop does not re-check the context; Buffer model: a failed Get changes nothing. Tie: delay-bounded sweep + history acceptance.",
    level_note="'promptly' is a step-bound/terminal-state statement; real-time latency is only measured (400 ms deadline). The WaitCond model is hand-written; "
               "its tie to sync.go is the sweep over the real code's synchronisation points.",
    stages=[corr_stage("C05S", 3, 12, feature=feat_buf("C05"), instrument=True, shards=4, tparams={"points": 1000}),
            corr_stage("BUFK1", 300, 5000, feature=feat_buf("C05"), params={"salt": 5})],
)
PROPS["C12"] = dict(
    rule="C12LEAK: Buffer with 1-3 consumers, reads/commits/rollbacks, parked Gets, shut down in 4 orders (consumers first, buffer first, context "
         "first, mixed), and Channel with 1-3 polling getters closed explicitly or by its context: termination, Done channels, errors from later "
         "calls, second Close, and the number of goroutines with a library frame returning to the baseline (goroutine dump, polled up to 2 s). BUFK1 "
         "histories containing Close operations decided by the model. non-trivial = a case with a parked Get or blocked Close; distinct by shape",
    level_text="Theorems (Properties/C12.v): Buffer.Close/consumer.Close terminate under the proviso, close Done, deregister every consumer, keep the "
               "contents, second Close errs; after close Put/NewConsumer/Get/Commit err and change nothing, permanently; Channel likewise; the WaitCond "
               "watcher has exited in every terminal state where the waiter returned; cleaner/timer goroutines reach a terminal state. Tie: goroutine-dump "
               "leak monitor + history acceptance. Goroutine-exit clauses of the other types are decided by their own properties' models (C14, C16, C17, C20).",
    level_note="PARTIAL: 'no goroutine left' is proved per protocol model (WaitCond watcher, cleaner timers) and otherwise observed on the real runtime; "
               "a single whole-library thread model is not built.",
    stages=[corr_stage("C12LEAK", 240, 3000, seeds=2),
            corr_stage("BUFK1", 300, 5000, feature=feat_buf("C12"), params={"salt": 12})],
)
PROPS["C13"] = dict(
    level_text="Theorems (Properties/C13.v): for every operation sequence the implementation-level Channel model (buffer + rollback counter as coded) "
               "refines a cursor specification; committed++Buffer() = taken prefix; Get returns the stream element under the cursor; rollback/commit "
               "laws; nothing taken after close. Tie: K1 sequential differential runs and K2 linearizability of concurrent histories against the extracted model.",
    level_note="Trusted: Coq kernel, extraction (ExtrOcamlBasic), OCaml checker glue, Go harness; Channel.mutex makes each method body atomic (C11); "
               "polling Get is observed through timeouts (an empty attempt = 6ms deadline).",
    rule="K1: seeded op sequences (SrcSend/Get/Commit/Rollback/Buffer/Close/Cancel/SrcClose) run on a real Channel, outputs must equal "
         "both the implementation-level model and the cursor specification; K2: 2-4 goroutines x 3-6 ops with a concurrent feeder, "
         "history must be linearizable w.r.t. the model. non-trivial = K1 case with a successful Rollback followed by a Get that "
         "returns a value (replay), or K2 history in which a Get returned a value; distinct by op sequence",
    stages=[corr_stage("C13K1", 400, 6000, feature=feat_c13, seeds=3),
            corr_stage("C13K2", 250, 4000, feature=feat_c13, seeds=3)],
)
PROPS["C03"] = dict(
    level_text="Theorems (Properties/C03.v): DefaultCleaner/FixedBufferCleaner/cleanupLogic clamp specifications for every size and offset list over Z; "
               "on the Buffer model, for every schedule: the default cleaner never moves the base past a registered consumer's committed offset (so no "
               "offset error for a consumer that keeps reading) and not at all without consumers; ANY cleaner only advances the base; an evicted consumer "
               "errs on every later Get; Slice/Size/Diff characterisation. Tie: exhaustive small-domain + seeded differential run of the Go functions, "
               "and Buffer histories under FixedBufferCleaner.",
    level_note=_BUF_NOTE,
    rule="pure cleaners: EXHAUSTIVE over size 0..6 x offset lists of length <= L over -2..8 (L=3 quick, 4 thorough), fixed cleaner over "
         "max,target in -1..8 x size 0..8 x 6 offset lists, plus seeded large values; Go result must equal the model. non-trivial = "
         "offset list mixing negative and positive offsets, or a forced trim (size > max)",
    stages=[corr_stage("C03F", 2000, 40000, params=None, feature=feat_c03, tparams={"maxlen": 4}),
            corr_stage("BUFK1", 300, 5000, feature=feat_buf("C03"), params={"salt": 3, "cleaner": 1})],
)


def feat_c19(tok):
    if tok[0] != "K1": return None
    body = tok[tok.index("#") + 1:]; bar = body.index("|"); op, out = body[:bar], body[bar + 1:]
    cfg = tok[3:tok.index("#")]
    shape, i, n = [], 1, int(op[0])
    for _ in range(n):
        kind, m = op[i], int(op[i + 1]); i += 2; vals = []
        for _ in range(m):
            vals.append(op[i] + ("n" if op[i + 1] == "1" else "")); i += 3
        shape.append(kind + ":" + ",".join(vals))
    nf = int(cfg[0]); sig = cfg[:nf + 3] + cfg[nf + 3::3]
    if out[0] == "0" and out[1] == "1" and int(out[2]) >= 1: return "inv:" + " ".join(sig) + "|" + ";".join(shape)
    if out[0] == "1" and len(op) > 3: return "err:" + " ".join(sig) + "|" + ";".join(shape)
    return None

def thorough_only(stage):
    def run(ctx):
        if ctx.tier_budget == "thorough": stage(ctx)
    return run

PROPS["C19"] = dict(
  level_text="Theorems (Properties/C19.v): over universally quantified reflect tables (Kind, AssignableTo assumed reflexive, Elem), for every signature, user function and option list the Call pipeline of the current tree (fixed = true) equals 'if valid then invoke exactly once with exactly the given arguments (variadic expansion, untyped nil = zero value of a nilable parameter) and store exactly the returned values, else error with no invocation and no store'; never a panic. The pipeline before commit cba04f9 is refuted (C19_nil_refuted, C19_current_panic_classes: nil argument, nil target, omitted CallArgs, >128 variadic arguments). Tie: K1 differential runs of the real Call against the extracted model instantiated with the tables reflect itself reports.",
  level_note="Trusted: Coq kernel, extraction, OCaml adapter (value observation encoding), Go harness; reflect modelled (panic conditions of Type/Value methods, FuncOf limit 128). CallArgsRaw/CallResultsRaw out of scope.",
  rule="signatures built with reflect.FuncOf/MakeFunc over a 32-type universe; EXHAUSTIVE: one argument (16 param types x 55 pool values incl. untyped nil and typed nils, plain and variadic), one result x every pool value as CallResults/CallResultsSlice target, two arguments over reduced pools (quick) / full pools (thorough, 774,400 cases), length sweeps incl. omitted CallArgs, 100..200 variadic arguments; plus seeded arity 0..4 cases, 25% malformed. Every record decided by the extracted model; monitors: no panic, error => not invoked and targets untouched, nil error => invoked once with exactly the given arguments and targets equal to a direct reflect call. non-trivial = invoked with >=1 argument, or an error for a call with arguments/targets; distinct by signature + option shapes",
  stages=[corr_stage("C19K1", 3000, 100000, feature=feat_c19, seeds=3),
          thorough_only(corr_stage("C19K1", 1, 1, params={"part": "a2full"}, feature=feat_c19))],
)


# ---------------------------------------------------------------------------------------------------------------
# C11: lockset translator + race detector
# ---------------------------------------------------------------------------------------------------------------
def c11_pre_coq():
    rc, out = vlib.sh([os.path.join(vlib.VERIF, "bin", "c11_gen")], timeout=600, env=dict(os.environ, VERIF_REPO=vlib.REPO))
    return "c11_gen: " + out.strip().split("\n")[-1][:200] + ("" if rc == 0 else " [FAILED rc=%d]" % rc)

LIBFILES = ("attempt.go", "bigbuff.go", "buffer.go", "callable.go", "chancaster.go", "channel.go", "chanpubsub.go", "consumer.go",
            "context.go", "exclusive.go", "notifier.go", "retry.go", "sync.go", "worker.go", "workers.go")

def race_stage(scen, quick, thorough, params=None, timeout=900):
    """Runs a free-running workload in a -race build and reports every race report that has a library (non-harness) frame."""
    def run(ctx):
        exe = ctx.exe(race=True)
        n = ctx.budget(quick, thorough)
        t0 = time.time()
        rc, rec, txt = vlib.run_scenario(exe, scen, ctx.seed, n, params, timeout=timeout,
                                         extra_env={"GORACE": "halt_on_error=0 exitcode=0 history_size=3"})
        entry = dict(scenario=scen + " (-race)", seed=ctx.seed, n=n, params=params or {}, rc=rc)
        blocks = re.findall(r"WARNING: DATA RACE\n(?:.*\n)*?==================", txt)
        libraces = []
        for b in blocks:
            frames = re.findall(r"/([a-z_]+\.go):(\d+)", b)
            lib = [f for f in frames if f[0] in LIBFILES]
            if lib:
                libraces.append((b, lib))
        seen = set()
        for b, lib in libraces:
            funcs = tuple(sorted(set(re.findall(r"go-bigbuff\.(\(\*?[A-Za-z\[\]\.]+\)\.[A-Za-z0-9_]+|[A-Za-z0-9_]+)\(", b))))
            key = tuple(sorted(set(lib)))[:4]
            if key in seen:
                continue
            seen.add(key)
            ctx.violate("data race with library frames reported by the Go race detector (%s): %s\n%s" % (
                scen, " ".join("%s:%s" % f for f in key), b[:1800]),
                dict(kind="race", scenario=scen, seed=ctx.seed, n=n, params=params or {}, report=b[:6000]))
        if rc != 0 and not libraces:
            tail = "\n".join(txt.strip().split("\n")[-30:])
            ctx.violate("race workload %s ended abnormally (rc=%d):\n%s" % (scen, rc, tail),
                        dict(kind="scenario-abort", scenario=scen, seed=ctx.seed, output=tail))
        recs = vlib.read_records(rec) if os.path.exists(rec) else []
        ncase = 0
        for line in recs:
            tok = line.split()
            if tok[0] == "STAT":
                ctx.stats[scen + "." + tok[1]] = ctx.stats.get(scen + "." + tok[1], 0) + int(tok[2])
                if tok[1].endswith("_runs"):
                    ncase += int(tok[2])
                    ctx.nontrivial.add(tok[1] + ":" + tok[2])
                    if len(ctx.samples) < 8:
                        ctx.samples.append("workload %s x%s (seed %d)" % (tok[1][:-5], tok[2], ctx.seed))
            elif tok[0] == "MONITOR":
                ctx.violate("monitor failed in the race workload: " + line[:400],
                            dict(kind="monitor", scenario=scen, seed=ctx.seed, record=line))
            elif tok[0] in ("K1", "K2", "F"):
                ncase += 1
                ctx.nontrivial.add(" ".join(tok[1:]))
                if len(ctx.samples) < 4:
                    ctx.samples.append(line[:400])
        ctx.evaluations += max(ncase, 1)
        ctx.traces += max(ncase, 1)
        entry["race_reports"] = len(blocks); entry["library_race_reports"] = len(libraces)
        entry["wall_s"] = round(time.time() - t0, 2)
        ctx.stage_log.append(entry)
    return run

PROPS["C11"] = dict(
    pre_coq=[c11_pre_coq],
    technique="lockset discipline proved sound in Rocq/Coq for all schedules; the implementation's lock/access facts are REGENERATED from the Go source "
              "on every run (translator harness/cmd/lockx) and re-checked by vm_compute; Go race detector as failing-input search",
    rule="translator: every field access of every library function/literal with the locks syntactically held (347 facts on the current tree) must satisfy "
         "the hand-written guard table (vm_compute); dynamic: C11RACE free-running workloads over the public API of every type in a -race build, a report "
         "counts only with a library frame. non-trivial = a workload round mixing >= 2 operation kinds on one object; distinct by workload record",
    level_text="Theorem C11_disciplined_no_race (any number of threads, any programs, every schedule): if every access is made while holding its location's "
               "guard lock in an adequate mode, no state has two threads at conflicting accesses. Obligations C11_impl_disciplined / _lazyinit_confined / "
               "_gostmts_ok / _sync_callers / _covers_table are recomputed from /repo's source on every run, so removing a lock breaks a proof obligation. "
               "Race detector workloads provide the concrete failing schedule.",
    level_note="PARTIAL: the translator's held-lock computation (syntactic, access-path aliasing, entry locksets by intersection over call sites, 'fresh' "
               "objects) and the exemption list (Buffer.ensure double-checked reads = the property's proviso; Worker.do reads ordered by the go statement; "
               "Exclusive lock hand-off; unpublished item) are trusted. Atomics/channels synchronise as the Go memory model says.",
    stages=[race_stage("C11RACE", 250, 2000)],
)


def feat_c18(tok):
    if tok[0] == "K1":
        i = tok.index("#"); cfg = tok[3:i]
        ops, outs = _split(tok[i + 1:], "|")
        ops = [o for o in _split(ops, ";") if o]; outs = [o for o in _split(outs, ";") if o]
        fin = outs[-1]; calls, kind = int(fin[0]), int(fin[3]); cancel = int(cfg[1])
        deep = any(o[0] == "1" and int(o[1]) >= 2 for o in ops)
        if calls >= 2 and (cancel >= 0 or (kind == 1 and deep) or calls > 32):
            shape = " ".join(o[0] + (":" + o[1] if o[0] == "1" else "") for o in ops)
            return "k1:%s:c%d:%s" % (tok[2][0], cancel, shape)
        return None
    if tok[0] == "F":
        body = tok[3:]; args = body[:body.index("|")]
        if tok[1] == "retry_slot" and int(args[1]) >= 1 and int(args[2]) != 0: return "slot:" + " ".join(args)
        if tok[1] == "retry_calc" and int(args[1]) >= 1: return "calc:" + " ".join(args)
    return None

PROPS["C18"] = dict(
    level_text="Theorems (Properties/C18.v) over the executable closure model (retry.go:62-75 line by line) for EVERY outcome script (plain / nested fatal / "
               "success), cancellation point (before a check, during a call, during a wait), random oracle and rate: outcome clauses (first success; fatal "
               "fully unwrapped at any depth with that call's result; no call after cancellation, ctx error with nil result), delay before the k-th retry = "
               "j*rate with 0 <= j <= 2^min(k,31)-1 (uint32/int64 wraps explicit, vacuous under the cap 31), default rate, wait cut by cancellation; five "
               "refuted variants. Tie: K1 through the repository's own seams (waitDuration, calcExponentialRetry), the real calcExponentialRetry sampled for "
               "c in 0..40 with an exact twin generator, real waitDuration under monitors, constants compared at run time.",
    level_note="Trusted: Coq kernel, extraction, OCaml glue, Go harness; math/rand.Int63n's range contract is the oracle hypothesis; timers and context are the "
               "Go runtime's; timing monitors use bounds of at least 1 s.",
    rule="C18K1: seeded scripts of 0-40 plain failures then success / fatal depth 1-4 / nothing, rates <= 0 .. 2^32 ns, nil and custom contexts, cancellation "
         "never / before the first check / inside a call / inside a wait, closure re-invoked; C18F: constants, real delay function for c in 0..40 (+2^16, 2^31, "
         "MaxUint32) x 6 rates, exact twin math/rand differential, real waitDuration. non-trivial = K1 case with >= 2 calls and a cancellation point, a "
         "consumed fatal error nested >= 2 deep, or > 32 calls; or a real delay sample with c >= 1 and non-zero delay; distinct by script shape",
    stages=[corr_stage("C18K1", 400, 6000, feature=feat_c18, seeds=3),
            corr_stage("C18F", 12, 60, params=None, feature=feat_c18)],
)
