"""Per-property configuration of bin/check: stages (harness scenarios + model checks), non-triviality rules."""
import os, re, json, time, random
import vlib
from vlib import log

TRUSTED_BASE = [
    "Coq 8.16.1 kernel and vm_compute (no native_compute); coqchk re-check in the thorough tier",
    "no axioms: every Print Assumptions under Properties/*.v must report 'Closed under the global context'",
    "extraction: ExtrOcamlBasic only (Extract Inductive bool/option/unit/list/prod/sumbool, Extract Inlined Constant andb/orb/fst/snd/negb-style inlinings it declares); nat/positive/Z stay inductive; OCaml 4.13.1 + dune",
    "hand-written Gallina models (coq/Model/*.v) tied to /repo by the correspondence check: Go harness (harness/inpkg, overlaid in-package, rebuilt from /repo's working tree on every run) + checker/main.ml (history parsing, int encodings; linearization search untrusted, witness replayed through the extracted step)",
    "translators (C03, C07, C18: harness/cmd/gotr, Go fragments -> Model/GoFrag.v / Model/GoFrag2.v terms, semantics = the embeddings' interpreters, math/rand.Int63n an oracle; C11: harness/cmd/lockx, lock/access facts) are trusted; their output is regenerated from /repo on every run and a failed translation is a broken obligation",
    "modelled, not verified: Go runtime and standard library (sync, sync/atomic, context, time, reflect, channels, scheduler fairness, memory model)",
]
ASSUMPTIONS = [
    "Go int offsets are unbounded (no overflow within 2^63 operations)",
    "each modelled critical section is atomic because it runs under the mutex named in the model (obligation of C11)",
]

class HarnessBuildError(Exception):
    pass

class RunCtx:
    def __init__(self, pid, tier, seed, ev, violations, known_hits, replay):
        self.pid, self.tier, self.seed, self.ev = pid, tier, seed, ev
        self.tier_budget = tier
        self.violations, self.known_hits, self.replay = violations, known_hits, replay
        self.evaluations = 0
        self.nontrivial = set()
        self.samples = []
        self.traces = 0
        self.stats = {}
        self.stage_log = []
        self.exhaustive = None
        self._exe = {}
        self.known = [k for k in vlib.known_findings() if k.get("property") == pid and k.get("status") == "known"]

    def exe(self, race=False, instrument=False):
        key = (race, instrument)
        if key not in self._exe:
            t0 = time.time()
            exe, out = vlib.build_harness(race=race, instrument=instrument, pid=self.pid)
            if exe is None:
                raise HarnessBuildError(out)
            log("harness %s built in %.1fs (%s)" % ("race" if race else "plain", time.time() - t0, out.strip().split("\n")[-1][:80] if out.strip() else "ok"))
            self._exe[key] = exe
        return self._exe[key]

    def budget(self, quick, thorough):
        return thorough if self.tier_budget == "thorough" else quick

    def violate(self, msg, obj, has_input=True):
        for k in self.known:
            if re.search(k["match"], msg):
                line = k["what"]
                if line not in self.known_hits:
                    self.known_hits.append(line)
                return
        self.violations.append((msg, obj, has_input))


def _canon(tokens):
    """canonical form of a program: values renamed in order of first appearance is overkill here; the op/out token string is
    already value-tagged, so distinct programs differ textually. We strip the case id."""
    return " ".join(tokens)

def corr_stage(scen, quick, thorough, params=None, feature=None, race=False, timeout=900, validate=True, seeds=1, instrument=False, shards=1, tparams=None):
    """A stage that runs a harness scenario and has the checker decide every K1/K2/F record."""
    def run(ctx):
        exe = ctx.exe(race=race, instrument=instrument)
        n = ctx.budget(quick, thorough)
        for si in range(seeds if ctx.tier_budget == "thorough" else 1):
            seed = ctx.seed + si * 7919
            t0 = time.time()
            prm = dict(params(exe) if callable(params) else (params or {}))
            if ctx.tier_budget == "thorough" and tparams:
                prm.update(tparams)
            tmo = timeout if ctx.tier_budget == "thorough" else min(timeout, 300)
            rc, rec, txt = vlib.run_sharded(exe, scen, seed, n, prm, shards, timeout=tmo)
            entry = dict(scenario=scen, seed=seed, n=n, params=prm, rc=rc)
            if rc != 0:
                tail = "\n".join(txt.strip().split("\n")[-40:])
                kind = "hang/timeout" if ("panic: test timed out" in txt or rc == 124) else "panic/crash"
                ctx.violate("harness scenario %s (seed %d) ended abnormally (%s):\n%s" % (scen, seed, kind, tail),
                            dict(kind="scenario-abort", scenario=scen, seed=seed, n=n, params=prm, output=tail))
                ctx.stage_log.append(entry)
                continue
            recs = vlib.read_records(rec) if os.path.exists(rec) else []
            ncase = 0
            for line in recs:
                tok = line.split()
                if tok[0] in ("K1", "K2", "F"):
                    ncase += 1
                    if feature:
                        f = feature(tok)
                        if f:
                            ctx.nontrivial.add(f)
                    else:
                        ctx.nontrivial.add(" ".join(tok[3:]) if tok[0] != "F" else " ".join(tok[1:2] + tok[3:]))
                    if len(ctx.samples) < 6 and (ncase % max(1, n // 3) == 1 or n < 6):
                        ctx.samples.append(line[:600])
                elif tok[0] == "STAT":
                    ctx.stats[scen + "." + tok[1]] = ctx.stats.get(scen + "." + tok[1], 0) + int(tok[2])
                elif tok[0] == "MONITOR":
                    ctx.violate("monitor failed on an implementation history: " + line[:400],
                                dict(kind="monitor", scenario=scen, seed=seed, n=n, params=prm, record=line))
                elif tok[0] == "INCONCLUSIVE":
                    # the scenario could not relate the implementation to the model at all (e.g. its synchronisation points are
                    # not the ones the model has steps for): the correspondence no longer checks, no failing input is claimed
                    ctx.violate("correspondence cannot be established: " + line[:400],
                                dict(kind="correspondence-broken", scenario=scen, seed=seed, n=n, params=prm, record=line), has_input=False)
                elif tok[0] == "EXHAUSTIVE":
                    ctx.exhaustive = True
            ctx.evaluations += ncase
            if validate and ncase:
                rc2, mism, summ, out = vlib.run_checker(rec)
                entry["checker"] = {m: v for m, v in summ.items() if isinstance(v, dict) and any(x for x in v.values())}
                if rc2 != 0:
                    ctx.violate("checker failed on records of %s: %s" % (scen, out[-800:]),
                                dict(kind="checker-error", scenario=scen, seed=seed, output=out[-3000:]), has_input=False)
                bycase = {}
                for line in recs:
                    tok = line.split()
                    if len(tok) > 2 and tok[0] in ("K1", "K2", "F"):
                        bycase[tok[2]] = line
                seen = set()
                for m in mism:
                    kv = dict(p.split("=", 1) for p in m.split()[1:] if "=" in p)
                    cid = kv.get("case", "?")
                    if cid in seen:
                        continue
                    seen.add(cid)
                    ctx.violate("implementation history rejected by the model (%s): %s" % (scen, m[:500]),
                                dict(kind="correspondence", scenario=scen, seed=seed, n=n, params=prm, mismatch=m,
                                     record=bycase.get(cid, "")[:20000]))
                ctx.traces += ncase
            entry["cases"] = ncase
            entry["wall_s"] = round(time.time() - t0, 2)
            ctx.stage_log.append(entry)
            try:
                os.remove(rec)
            except OSError:
                pass
    return run

# ---------------------------------------------------------------------------------------------------------------
# features (what makes a case non-trivial), per property
# ---------------------------------------------------------------------------------------------------------------
def _split(tok, sep):
    out, cur = [], []
    for t in tok:
        if t == sep:
            out.append(cur); cur = []
        else:
            cur.append(t)
    out.append(cur)
    return out

def feat_c13(tok):
    if tok[0] == "K1":
        body = tok[tok.index("#") + 1:]
        ops, outs = _split(body, "|")
        ops = [o for o in _split(ops, ";") if o]; outs = [o for o in _split(outs, ";") if o]
        # non-trivial: a Rollback that succeeded followed later by a Get returning a value (a replay)
        rolled = False
        for o, r in zip(ops, outs):
            if o == ["3"] and r == ["3"]:
                rolled = True
            if rolled and o == ["0"] and r[0] == "0":
                return "k1:" + " ".join(";".join(x) for x in ops)
        return None
    if tok[0] == "K2":
        body = " ".join(tok[tok.index("#") + 1:])
        # non-trivial: at least two threads' operations overlap and a Get returned a value
        if ": 0 : 0 " in body:
            return "k2:" + re.sub(r"\d+ \d+ :", ":", body)
    return None

def feat_c03(tok):
    if tok[0] == "F":
        body = tok[3:]
        args = body[:body.index("|")]
        # non-trivial: at least one negative and one positive offset, or a forced trim
        if tok[1] == "default_cleaner":
            offs = [int(x) for x in args[1:]]
            if any(o < 0 for o in offs) and any(o > 0 for o in offs):
                return "dc:" + " ".join(args)
        else:
            mx, tg, size = int(args[0]), int(args[1]), int(args[2])
            if size > mx:
                return "fc:" + " ".join(args)
    return None

PROPS = {}
HOOK_COMMITS = []
NOTES = "See DESIGN.md. All checks: bin/check <id> quick|thorough. Fix commits in /repo are listed in known_findings.json."

def feat_buf(kind):
    def f(tok):
        if tok[0] != "K2" or tok[1] != "buffer":
            return tok[1] + ":" + " ".join(tok[3:]) if tok[0] == "F" else None
        body = tok[tok.index("#") + 1:]
        recs = [r for r in _split(body, ";") if r]
        ops = []
        for r in recs:
            parts = _split(r, ":")
            if len(parts) == 3:
                ops.append((parts[1], parts[2]))
        cfg = tok[3:tok.index("#")]
        sig = " ".join(cfg) + "|" + ";".join(" ".join(o) + ">" + " ".join(r) for o, r in ops)
        if kind == "C01":   # two or more consumers reading values, with a multi-value batch
            readers = set(o[1] for o, r in ops if o[0] == "3" and r and r[0] == "0")
            batch = any(o[0] == "0" and int(o[1]) >= 2 for o, r in ops)
            return sig if (len(readers) >= 2 and batch) else None
        if kind == "C02":   # a successful rollback followed by a value read, or a Range
            rolled = False
            for o, r in ops:
                if o[0] == "6" and r == ["3"]:
                    rolled = True
                if (rolled and o[0] == "3" and r and r[0] == "0") or o[0] == "100":
                    return sig
            return None
        if kind == "C03":   # a forced trim made some Get fail, or a settled size observation under a non-default cleaner
            if cfg and cfg[0] != "0" and any(o[0] == "14" for o, r in ops):
                return sig
            return None
        if kind == "C05":   # a Get that parked (probe) or was cancelled while parked
            return sig if any(o[0] in ("15", "4") for o, r in ops) else None
        if kind == "C12":
            return sig if any(o[0] in ("10", "11") for o, r in ops) else None
        return sig
    return f

_BUF_NOTE = ("Trusted: Coq kernel, extraction (ExtrOcamlBasic), OCaml checker glue (the linearization search is untrusted only in the sense that a "
             "false ACCEPT would need a bug in replaying the extracted step), Go harness (logical clock, quiescence detection). Each Buffer/consumer "
             "method body is one atomic step because it runs under Buffer.mutex / consumer.mutex (obligation of C11); sync.Cond wake-ups are modelled in "
             "Model/WaitCond.v, not in the Buffer model (a parked Get is a pending operation). Go int offsets unbounded.")

PROPS["C01"] = dict(
    pre_coq=[lambda: buffer_pre_coq()],   # C01_get_source_* / C01_commit_source_*: Buffer.get and Buffer.commit translated from the current buffer.go
    rule="BUFK1: seeded scripts of Put(batch 0-3)/NewConsumer/Get/Commit/Rollback/Diff/Size/Slice/Settled/Close/Range on a real Buffer (cooldown 0, "
         "Default/Fixed/custom cleaners), blocking calls left pending and probed at quiescent points; the recorded history (invocation/return ticks) "
         "must be a history of the extracted model with cleaner/shutdown steps interleaved freely. non-trivial = history in which >= 2 consumers "
         "received values and a multi-value batch was put; distinct by full op/result sequence",
    level_text="Theorems (Properties/C01.v) over every schedule of operations, cleaner runs and shutdown steps: the log is append-only and is the "
               "concatenation of the successful Put batches in lock order; every successful Get returns log[commit+delta] (>= base) and advances by one; "
               "per consumer the positions ever returned are exactly [start, high) and the pending window is commit..commit+delta-1. Tie: differential "
               "history acceptance of the real Buffer against the extracted model."
               " Added after the statement audit (DESIGN 5b): schedules with an arbitrary cleaner function at every cleaner run (grun), creation base, first-occurrence order, re-read only after Rollback. Source tie (DESIGN 4.4b): Buffer.get and Buffer.commit are translated from the current buffer.go on every run and proved equal to the model's get_attempt / OCommit step for every state and argument (C01_get/commit_source_is_spec/_is_model).",
    level_note=_BUF_NOTE,
    stages=[corr_stage("BUFK1", 4000, 8000, feature=feat_buf("C01"), seeds=3),
            corr_stage("C01BIG", 6, 60, validate=False),
            corr_stage("C01CTXPUT", 60, 600, validate=False)],
)
PROPS["C02"] = dict(
    rule="BUFK1 (see C01) including bigbuff.Range and Buffer.Range with scripted callbacks (continue/stop/panic); non-trivial = history with a "
         "successful Rollback followed by a value read, or a Range call"
         " Scripted panics are, half of the time, runtime.Goexit from inside the callback (the deferred rollback must treat both alike).",
    level_text="Theorems (Properties/C02.v): Rollback/Commit step specifications, empty commit/rollback are error no-ops, the pending window is "
               "commit..commit+delta-1, commits are permanent under every later schedule; Range and Buffer.Range (range_loop composite): every visited value is "
               "the consecutive log entry from the entry commit point, everything visited is committed except the in-flight value of a panicking callback "
               "which the next Get returns again, nothing is left uncommitted whatever the end, a Get failure leaves the cursor at the first unvisited value, "
               "a value put by a callback is in the log before that value's Commit, Buffer.Range stops at the end of the buffer with nil and never blocks."
               " Added (DESIGN 5b): Range/Buffer.Range under an arbitrary interleaved environment and with reads pending at entry (C02_range_env_*), composed replay after Rollback; two clauses refuted as worded with the exact caveat.",
    level_note=_BUF_NOTE + " The Range theorems are about the interleaving-free composite; interleavings with the cleaner are explored by the checker only.",
    stages=[corr_stage("BUFK1", 4000, 8000, feature=feat_buf("C02"), seeds=3, params={"salt": 2}),
            corr_stage("C02SHARED", 60, 600, validate=False)],
)
def c04_trace_params(exe):
    return {"ptfile": os.path.join(os.path.dirname(exe), "instr", "points.txt")}

PROPS["C04"] = dict(
    pre_coq=[lambda: c03_pre_coq()],   # the fixed/default cleaner clauses are about the functions translated from the current source
    rule="C04T: 14 timed scenarios (one / two consumers, closing the slowest with and without an already reclaimed prefix, consumers parked at the tail, cooldown 0, a cooldown reconfigured inside a window, FixedBufferCleaner with and without consumers incl. target == max, a short prefix committed and the size pushed over max inside ONE window, everything consumed under the fixed cleaner (known finding F6), sustained traffic by a consumer that keeps up: something must be reclaimed during the traffic) on an INSTRUMENTED build; each "
         "is run plain and then once per (synchronisation point hit by the scenario, k-th hit <= 3) with a delay of 2.5 cooldowns injected there "
         "(delay-bounded schedule sweep); after going quiet for 2 cooldowns + slack the settled Size/Slice must be what the model gives after the "
         "cleaner ran. non-trivial = a sweep run whose delay fired; distinct by (scenario, point, hit)"
         " C04TRACE: trace acceptance - the synchronisation points executed by the cleaner goroutine and the cooldown-timer goroutines of a Buffer in use, and every external Broadcast, are logged in order on an instrumented build; the log must be a run of the extracted CleanerProto.step and end in a state from which the model can be terminal.",
    level_text="Theorems (Properties/C04.v) on the cleaner/timer wake-up protocol at lock-operation granularity with a notify-list condition variable: "
               "every reachable terminal state is clean (any number of changes, cooldown 0 or >0, every schedule), every run terminates, at most two "
               "timer firings after the last change; the pre-fix protocol is refuted (F3, fixed by 989b0cf). Tie: timed scenarios with a delay-bounded "
               "sweep over all instrumentation points of the real code, decided by the Buffer model's OSettled observation."
               " Added (DESIGN 5b): Buffer-level reclamation (cleaner caught up => base = least committed offset of the registered consumers; fixed cleaner => size <= max), every schedule bounded; full reclamation under the fixed cleaner refuted (known finding F6).",
    level_note="Wall-clock bound is proved as a step bound (timer firings) and measured with generous slack, not proved in real time. Trusted: the "
               "hand-written protocol model (no automatic tie between CleanerProto.v and buffer.go other than the sweep), sync.Cond notify-list semantics, "
               "instrumenter inserts calls only.",
    stages=[corr_stage("C04BIG", 12, 100, validate=False),
            corr_stage("C04TRACE", 150, 1500, params=c04_trace_params, instrument=True,
                       feature=lambda tok: " ".join(tok[3:40]) if tok[0] == "F" else None),
            corr_stage("C04T", 2, 6, feature=lambda tok: tok[2] if (tok[0] == "K2" and "-p" in tok[2]) else None, instrument=True, shards=12,
                       params={"points": 12}, tparams={"points": 1000}, timeout=1200),
            corr_stage("C04HUGE", 8, 40, validate=False),
            corr_stage("C04GOEXIT", 60, 600, validate=False),
            corr_stage("C04LAG", 40, 400, validate=False)],
)
def c05_trace_params(exe):
    """ids of the six synchronisation points of WaitCond (sync.go), found by WHAT THEY DO in the instrumenter's table (not by
    line or order): the ctx.Err() check, the go statement, the receive from ctx.Done(), l.Lock(), cond.Broadcast(), cond.Wait().
    If sync.go does not have exactly one of each, the trace stage cannot map the implementation's points to the model's steps."""
    pts = os.path.join(os.path.dirname(exe), "instr", "points.txt")
    want = ["Err", "go", "recv", "Lock", "Broadcast", "Wait"]
    found = {}
    if os.path.exists(pts):
        for l in open(pts):
            f = l.split()
            fn = [x[3:] for x in f[5:] if x.startswith("fn=")]
            if len(f) >= 4 and (fn[0] == "WaitCond" if fn else f[1].startswith("sync.go:")):   # wherever WaitCond lives
                found.setdefault(f[3], []).append(int(f[0]))
    other = sorted(k for k in found if k not in want)
    # the context check may be written more than once (e.g. once before the loop and once after each wake-up): every copy is
    # the model's WStart check; the other five operations must be unique
    if other or not found.get("Err") or any(len(found.get(k, [])) != 1 for k in want[1:]):
        return {"pts": "", "ptsproblem": "/".join("%s=%d" % (k, len(found.get(k, []))) for k in want + other)}
    return {"pts": ".".join("+".join(str(i) for i in found[k]) for k in want)}

PROPS["C05"] = dict(
    rule="C05S: a Get going to sleep races a Put / a second Put / its context's cancellation / Buffer.Close, plain and with a 2 ms delay injected at "
         "every instrumentation point the scenario hits (k-th hit <= 2); a Get still parked afterwards is probed and the model must agree it would "
         "park; after a failed Get the next Get must return the same position. BUFK1 histories with parked/cancelled Gets. non-trivial = history with a "
         "parked-then-probed or cancelled Get; distinct by op/result sequence and sweep point"
         " C05TRACE: trace acceptance - on an instrumented build the six synchronisation points of WaitCond, every fn evaluation, the notifier sections, cancel() and the return are logged in order and the log must be a run of the extracted WaitCond.step (announced steps only after their announcement, fn sees the model's predicate value).",
    level_text="Theorems (Properties/C05.v) on WaitCond at lock-operation granularity: terminal => (predicate or cancelled => returned and unlocked), "
               "nil only after a true predicate under the lock, error only if cancelled, termination; refuted when the watcher does not take the lock or "
               "the loop does not re-check the context; Buffer model: a failed Get changes nothing. Tie: delay-bounded sweep + history acceptance."
               " Added (DESIGN 5b): every schedule bounded by mu(s); no-recheck variant refuted.",
    level_note="'promptly' is a step-bound/terminal-state statement; real-time latency is only measured (400 ms deadline). The WaitCond model is hand-written; "
               "its tie to sync.go is the sweep over the real code's synchronisation points.",
    stages=[corr_stage("C05TRACE", 400, 4000, params=c05_trace_params, instrument=True,
                       feature=lambda tok: " ".join(tok[3:40]) if tok[0] == "F" else None),
            corr_stage("C05S", 6, 12, feature=feat_buf("C05"), instrument=True, shards=4, tparams={"points": 1000}),
            corr_stage("BUFK1", 2000, 5000, feature=feat_buf("C05"), params={"salt": 5}),
            corr_stage("C05CAUSE", 60, 600, validate=False),
            corr_stage("C05RELEN", 30, 300, validate=False)],
)
PROPS["C12"] = dict(
    rule="C12LEAK: Buffer with 1-3 consumers, reads/commits/rollbacks, parked Gets, shut down in 4 orders (consumers first, buffer first, context "
         "first, mixed), and Channel with 1-3 polling getters closed explicitly or by its context: termination, Done channels, errors from later "
         "calls, second Close, and the number of goroutines with a library frame returning to the baseline (goroutine dump, polled up to 2 s). BUFK1 "
         "histories containing Close operations decided by the model. non-trivial = a case with a parked Get or blocked Close; distinct by shape",
    level_text="Theorems (Properties/C12.v): Buffer.Close/consumer.Close terminate under the proviso, close Done, deregister every consumer, keep the "
               "contents, second Close errs; after close Put/NewConsumer/Get/Commit err and change nothing, permanently; Channel likewise; the WaitCond "
               "watcher has exited in every terminal state where the waiter returned; cleaner/timer goroutines reach a terminal state. Tie: goroutine-dump "
               "leak monitor + history acceptance. Goroutine-exit clauses of the other types are decided by their own properties' models (C14, C16, C17, C20)."
               " Added (DESIGN 5b): Channel.Close theorems, cancellation/watcher split machine, closed consumers of an open Buffer, pending Commit/Rollback on a closed Buffer (37 obligations).",
    level_note="PARTIAL: 'no goroutine left' is proved per protocol model (WaitCond watcher, cleaner timers) and otherwise observed on the real runtime; "
               "a single whole-library thread model is not built.",
    stages=[corr_stage("C12LEAK", 480, 3000, seeds=2),
            corr_stage("BUFK1", 1500, 5000, feature=feat_buf("C12"), params={"salt": 12}),
            corr_stage("C13K1", 600, 4000, feature=lambda tok: (" ".join(tok[3:]) if (" ; 5 ; " in " ".join(tok) or " ; 6 ; " in " ".join(tok)) else None),
                       params={"closebias": 1}),
            corr_stage("C12S", 5, 10, instrument=True, shards=4, tparams={"points": 1000}),
            corr_stage("C12FROZEN", 9, 60, validate=False),
            corr_stage("C12PRECANCEL", 160, 1600, validate=False)],
)
PROPS["C13"] = dict(
    level_text="Theorems (Properties/C13.v): for every operation sequence the implementation-level Channel model (buffer + rollback counter as coded) "
               "refines a cursor specification; committed++Buffer() = taken prefix; Get returns the stream element under the cursor; rollback/commit "
               "laws; nothing taken after close. Tie: K1 sequential differential runs and K2 linearizability of concurrent histories against the extracted model."
               " Added (DESIGN 5b): stutter lemmas, generic thread wrapper with a linearizability theorem instantiated for Channel, clause-by-clause theorems on the coded model (27 theorems).",
    level_note="Trusted: Coq kernel, extraction (ExtrOcamlBasic), OCaml checker glue, Go harness; Channel.mutex makes each method body atomic (C11); "
               "polling Get is observed through timeouts (an empty attempt = 6ms deadline).",
    rule="K1: seeded op sequences (SrcSend/Get/Commit/Rollback/Buffer/Close/Cancel/SrcClose) run on a real Channel, outputs must equal "
         "both the implementation-level model and the cursor specification; K2: 2-4 goroutines x 3-6 ops with a concurrent feeder, "
         "history must be linearizable w.r.t. the model. non-trivial = K1 case with a successful Rollback followed by a Get that "
         "returns a value (replay), or K2 history in which a Get returned a value; distinct by op sequence"
         " C13WIN: the parent context is cancelled while a Get is inside its critical section (a hook context whose Err(), only ever called under the Channel mutex, cancels the parent and watches Done): Done must not close before the take.",
    stages=[corr_stage("C13K1", 2500, 6000, feature=feat_c13, seeds=3),
            corr_stage("C13K2", 1500, 4000, feature=feat_c13, seeds=3),
            corr_stage("C13WIN", 40, 300, validate=False),
            corr_stage("C13BIG", 24, 240, validate=False),
            corr_stage("C13ALIAS", 200, 2000, validate=False)],
)
PROPS["C03"] = dict(
    pre_coq=[lambda: c03_pre_coq(), lambda: buffer_pre_coq()],   # C03_cleanup_source_* / C03_consumer_offsets_source_*: cleanupLogic, consumerOffsets translated from the current buffer.go
    level_text="Theorems (Properties/C03.v): DefaultCleaner/FixedBufferCleaner/cleanupLogic clamp specifications for every size and offset list over Z; "
               "on the Buffer model, for every schedule: the default cleaner never moves the base past a registered consumer's committed offset (so no "
               "offset error for a consumer that keeps reading) and not at all without consumers; ANY cleaner only advances the base; an evicted consumer "
               "errs on every later Get; Slice/Size/Diff characterisation. Tie: DefaultCleaner and FixedBufferCleaner are TRANSLATED from the current "
               "source on every run (harness/cmd/gotr -> coq/Gen/ImplCleaners.v, a deep embedding of the Go fragment with an interpreter) and proved equal "
               "to the model functions for every input (C03_*_source_is_model); plus exhaustive small-domain + seeded differential run of the Go "
               "functions, and Buffer histories under FixedBufferCleaner."
               " Added (DESIGN 5b): the cleaner functions are translated from the current source and proved equal to the model; consumers at or beyond a trim are unaffected; run theorems for arbitrary cleaners. Buffer.cleanupLogic and consumerOffsets are translated too and proved equal to clean_with for every order-independent cleaner and every map iteration order (C03_cleanup/consumer_offsets_source_*).",
    level_note=_BUF_NOTE,
    rule="pure cleaners: EXHAUSTIVE over size 0..6 x offset lists of length <= L over -2..8 (L=3 quick, 4 thorough), fixed cleaner over "
         "max,target in -1..8 x size 0..8 x 6 offset lists, plus seeded large values; Go result must equal the model. non-trivial = "
         "offset list mixing negative and positive offsets, or a forced trim (size > max)",
    stages=[corr_stage("C03F", 6000, 40000, params=None, feature=feat_c03, tparams={"maxlen": 4}),
            corr_stage("BUFK1", 2000, 5000, feature=feat_buf("C03"), params={"salt": 3, "cleanermix": 1}),
            corr_stage("C03SLICE", 10, 100, validate=False)],
)


def feat_c19(tok):
    if tok[0] != "K1": return None
    body = tok[tok.index("#") + 1:]; bar = body.index("|"); op, out = body[:bar], body[bar + 1:]
    cfg = tok[3:tok.index("#")]
    shape, i, n = [], 1, int(op[0])
    for _ in range(n):
        kind, m = op[i], int(op[i + 1]); i += 2; vals = []
        for _ in range(m):
            vals.append(op[i] + ("n" if op[i + 1] == "1" else "")); i += 3
        shape.append(kind + ":" + ",".join(vals))
    nf = int(cfg[0]); sig = cfg[:nf + 3] + cfg[nf + 3::3]
    if out[0] == "0" and out[1] == "1" and int(out[2]) >= 1: return "inv:" + " ".join(sig) + "|" + ";".join(shape)
    if out[0] == "1" and len(op) > 3: return "err:" + " ".join(sig) + "|" + ";".join(shape)
    return None

def thorough_only(stage):
    def run(ctx):
        if ctx.tier_budget == "thorough": stage(ctx)
    return run

PROPS["C19"] = dict(
  level_text="Theorems (Properties/C19.v): over universally quantified reflect tables (Kind, AssignableTo assumed reflexive, Elem), for every signature, user function and option list the Call pipeline of the current tree (fixed = true) equals 'if valid then invoke exactly once with exactly the given arguments (variadic expansion, untyped nil = zero value of a nilable parameter) and store exactly the returned values, else error with no invocation and no store'; never a panic. The pipeline before commit cba04f9 is refuted (C19_nil_refuted, C19_current_panic_classes: nil argument, nil target, omitted CallArgs, >128 variadic arguments). Tie: K1 differential runs of the real Call against the extracted model instantiated with the tables reflect itself reports.",
  level_note="Trusted: Coq kernel, extraction, OCaml adapter (value observation encoding), Go harness; reflect modelled (panic conditions of Type/Value methods, FuncOf limit 128). CallArgsRaw/CallResultsRaw out of scope.",
  rule="signatures built with reflect.FuncOf/MakeFunc over a 32-type universe; EXHAUSTIVE: one argument (16 param types x 55 pool values incl. untyped nil and typed nils, plain and variadic), one result x every pool value as CallResults/CallResultsSlice target, two arguments over reduced pools (quick) / full pools (thorough, 774,400 cases), length sweeps incl. omitted CallArgs, 100..200 variadic arguments; plus seeded arity 0..4 cases, 25% malformed. Every record decided by the extracted model; monitors: no panic, error => not invoked and targets untouched, nil error => invoked once with exactly the given arguments and targets equal to a direct reflect call. non-trivial = invoked with >=1 argument, or an error for a call with arguments/targets; distinct by signature + option shapes",
  stages=[corr_stage("C19K1", 40000, 100000, feature=feat_c19, seeds=3),
            corr_stage("C19PANICS", 300, 3000, validate=False),
            corr_stage("C19UNTOUCHED", 3000, 30000, validate=False),
          thorough_only(corr_stage("C19K1", 1, 1, params={"part": "a2full"}, feature=feat_c19))],
)


# ---------------------------------------------------------------------------------------------------------------
# C11: lockset translator + race detector
# ---------------------------------------------------------------------------------------------------------------
def c11_pre_coq():
    rc, out = vlib.sh([os.path.join(vlib.VERIF, "bin", "c11_gen")], timeout=600, env=dict(os.environ, VERIF_REPO=vlib.REPO))
    return "c11_gen: " + out.strip().split("\n")[-1][:200] + ("" if rc == 0 else " [FAILED rc=%d]\n%s" % (rc, out[-1500:]))

def c03_pre_coq():
    """Translate the cleaner functions of the current source into the Go-fragment embedding (coq/Gen/ImplCleaners.v)."""
    ok, outt = vlib.build_tools()
    exe = os.path.join(vlib.CACHE, "tools", "gotr")
    out = os.path.join(vlib.COQ, "Gen", "ImplCleaners.v")
    os.makedirs(os.path.dirname(out), exist_ok=True)
    tmp = out + ".tmp.%d" % os.getpid()
    rc, txt = (1, outt) if not ok else vlib.sh([exe, "-repo", vlib.REPO, "-out", tmp], timeout=120)
    if rc != 0 or not os.path.exists(tmp):
        if os.path.exists(tmp):
            os.remove(tmp)
        # never leave a translation of an older tree in place
        open(out, "w").write("(* gotr failed on the current source: see the check log *)\nDefinition translation_failed : nat := true.\n")
        return "c03_gen: gotr [FAILED rc=%d]\n%s" % (rc, txt[-1500:])
    new = open(tmp).read()
    if os.path.exists(out) and open(out).read() == new:
        os.remove(tmp)
        return "c03_gen: cleaner functions translated from %s (unchanged)" % vlib.REPO
    os.replace(tmp, out)
    return "c03_gen: cleaner functions translated from %s (updated)" % vlib.REPO

def pure_pre_coq(which):
    """Translate a straight-line function of the current source into the fixed-width embedding Model/GoFrag2.v:
    which = "sanity": chanpubsub.go sanityCheckSubscribersDelta -> coq/Gen/ImplPureSanity.v (C07);
    which = "retry":  retry.go calcExponentialRetry             -> coq/Gen/ImplPureRetry.v  (C18).
    One generated file per property, so that a function that leaves the fragment breaks its own property's obligations only."""
    ok, outt = vlib.build_tools()
    exe = os.path.join(vlib.CACHE, "tools", "gotr")
    out = os.path.join(vlib.COQ, "Gen", {"sanity": "ImplPureSanity.v", "retry": "ImplPureRetry.v"}[which])
    os.makedirs(os.path.dirname(out), exist_ok=True)
    tmp = out + ".tmp.%d" % os.getpid()
    rc, txt = (1, outt) if not ok else vlib.sh([exe, "-set", which, "-repo", vlib.REPO, "-out", tmp], timeout=120)
    if rc != 0 or not os.path.exists(tmp):
        if os.path.exists(tmp):
            os.remove(tmp)
        # never leave a translation of an older tree in place
        open(out, "w").write("(* gotr -set %s failed on the current source: see the check log *)\nDefinition translation_failed : nat := true.\n" % which)
        return "pure_gen(%s): gotr [FAILED rc=%d]\n%s" % (which, rc, txt[-1500:])
    new = open(tmp).read()
    if os.path.exists(out) and open(out).read() == new:
        os.remove(tmp)
        return "pure_gen(%s): translated from %s (unchanged)" % (which, vlib.REPO)
    os.replace(tmp, out)
    return "pure_gen(%s): translated from %s (updated)" % (which, vlib.REPO)

def buffer_pre_coq():
    """Translate the arithmetic kernel of the Buffer - buffer.go (*Buffer).consumerOffsets, get, commit, cleanupLogic, with the
    struct declaration of Buffer - from the current source into the record-state embedding Model/GoFrag3.v:
    coq/Gen/ImplBuffer.v (C01: C01_get_source_*, C01_commit_source_*; C03: C03_cleanup_source_*, C03_consumer_offsets_source_*).
    A method that leaves the fragment breaks the obligations of both properties: the file is overwritten with one that cannot
    compile, a translation of an older tree is never used."""
    ok, outt = vlib.build_tools()
    exe = os.path.join(vlib.CACHE, "tools", "gotr")
    out = os.path.join(vlib.COQ, "Gen", "ImplBuffer.v")
    os.makedirs(os.path.dirname(out), exist_ok=True)
    tmp = out + ".tmp.%d" % os.getpid()
    rc, txt = (1, outt) if not ok else vlib.sh([exe, "-set", "buffer", "-repo", vlib.REPO, "-out", tmp], timeout=120)
    if rc != 0 or not os.path.exists(tmp):
        if os.path.exists(tmp):
            os.remove(tmp)
        # never leave a translation of an older tree in place
        open(out, "w").write("(* gotr -set buffer failed on the current source: see the check log *)\nDefinition translation_failed : nat := true.\n")
        return "buffer_gen: gotr [FAILED rc=%d]\n%s" % (rc, txt[-1500:])
    new = open(tmp).read()
    if os.path.exists(out) and open(out).read() == new:
        os.remove(tmp)
        return "buffer_gen: get, commit, cleanupLogic, consumerOffsets translated from %s (unchanged)" % vlib.REPO
    os.replace(tmp, out)
    return "buffer_gen: get, commit, cleanupLogic, consumerOffsets translated from %s (updated)" % vlib.REPO

LIBFILES = ("attempt.go", "bigbuff.go", "buffer.go", "callable.go", "chancaster.go", "channel.go", "chanpubsub.go", "consumer.go",
            "context.go", "exclusive.go", "notifier.go", "retry.go", "sync.go", "worker.go", "workers.go")

def race_stage(scen, quick, thorough, params=None, timeout=900):
    """Runs a free-running workload in a -race build and reports every race report that has a library (non-harness) frame."""
    def run(ctx):
        exe = ctx.exe(race=True)
        n = ctx.budget(quick, thorough)
        t0 = time.time()
        rc, rec, txt = vlib.run_scenario(exe, scen, ctx.seed, n, params, timeout=timeout,
                                         extra_env={"GORACE": "halt_on_error=0 exitcode=0 history_size=3"})
        entry = dict(scenario=scen + " (-race)", seed=ctx.seed, n=n, params=params or {}, rc=rc)
        blocks = re.findall(r"WARNING: DATA RACE\n(?:.*\n)*?==================", txt)
        libraces = []
        for b in blocks:
            frames = re.findall(r"/([a-z_]+\.go):(\d+)", b)
            lib = [f for f in frames if f[0] in LIBFILES]
            if lib:
                libraces.append((b, lib))
        seen = set()
        for b, lib in libraces:
            funcs = tuple(sorted(set(re.findall(r"go-bigbuff\.(\(\*?[A-Za-z\[\]\.]+\)\.[A-Za-z0-9_]+|[A-Za-z0-9_]+)\(", b))))
            key = tuple(sorted(set(lib)))[:4]
            if key in seen:
                continue
            seen.add(key)
            ctx.violate("data race with library frames reported by the Go race detector (%s): %s\n%s" % (
                scen, " ".join("%s:%s" % f for f in key), b[:1800]),
                dict(kind="race", scenario=scen, seed=ctx.seed, n=n, params=params or {}, report=b[:6000]))
        if rc != 0 and not libraces:
            tail = "\n".join(txt.strip().split("\n")[-30:])
            ctx.violate("race workload %s ended abnormally (rc=%d):\n%s" % (scen, rc, tail),
                        dict(kind="scenario-abort", scenario=scen, seed=ctx.seed, output=tail))
        recs = vlib.read_records(rec) if os.path.exists(rec) else []
        ncase = 0
        for line in recs:
            tok = line.split()
            if tok[0] == "STAT":
                ctx.stats[scen + "." + tok[1]] = ctx.stats.get(scen + "." + tok[1], 0) + int(tok[2])
                if tok[1].endswith("_runs"):
                    ncase += int(tok[2])
                    ctx.nontrivial.add(tok[1] + ":" + tok[2])
                    if len(ctx.samples) < 8:
                        ctx.samples.append("workload %s x%s (seed %d)" % (tok[1][:-5], tok[2], ctx.seed))
            elif tok[0] == "MONITOR":
                ctx.violate("monitor failed in the race workload: " + line[:400],
                            dict(kind="monitor", scenario=scen, seed=ctx.seed, record=line))
            elif tok[0] in ("K1", "K2", "F"):
                ncase += 1
                ctx.nontrivial.add(" ".join(tok[1:]))
                if len(ctx.samples) < 4:
                    ctx.samples.append(line[:400])
        ctx.evaluations += max(ncase, 1)
        ctx.traces += max(ncase, 1)
        entry["race_reports"] = len(blocks); entry["library_race_reports"] = len(libraces)
        entry["wall_s"] = round(time.time() - t0, 2)
        ctx.stage_log.append(entry)
    return run

PROPS["C11"] = dict(
    pre_coq=[c11_pre_coq],
    technique="lockset discipline proved sound in Rocq/Coq for all schedules; the implementation's lock/access facts are REGENERATED from the Go source "
              "on every run (translator harness/cmd/lockx) and re-checked by vm_compute; Go race detector as failing-input search",
    rule="translator: every field access of every library function/literal with the locks syntactically held (347 facts on the current tree) must satisfy "
         "the hand-written guard table (vm_compute); dynamic: C11RACE free-running workloads over the public API of every type in a -race build, a report "
         "counts only with a library frame. non-trivial = a workload round mixing >= 2 operation kinds on one object; distinct by workload record",
    level_text="Theorem C11_disciplined_no_race (any number of threads, any programs, every schedule): if every access is made while holding its location's "
               "guard lock in an adequate mode, no state has two threads at conflicting accesses. Obligations C11_impl_disciplined / _lazyinit_confined / "
               "_gostmts_ok / _sync_callers / _covers_table are recomputed from /repo's source on every run, so removing a lock breaks a proof obligation. "
               "Race detector workloads provide the concrete failing schedule."
               " Added (DESIGN 5b): bridge guard_sat => action_ok and library-programs-race-free theorem, explicit tight trusted-remainder table, captured locals as locations, sync-caller assumption computed in Coq, token-passing happens-before extension (41 obligations).",
    level_note="PARTIAL: the translator's held-lock computation (syntactic, access-path aliasing, entry locksets by intersection over call sites, 'fresh' "
               "objects) and the exemption list (Buffer.ensure double-checked reads = the property's proviso; Worker.do reads ordered by the go statement; "
               "Exclusive lock hand-off; unpublished item) are trusted. Atomics/channels synchronise as the Go memory model says.",
    stages=[race_stage("C11RACE", 500, 2000)],
)


def feat_c18(tok):
    if tok[0] == "K1":
        i = tok.index("#"); cfg = tok[3:i]
        ops, outs = _split(tok[i + 1:], "|")
        ops = [o for o in _split(ops, ";") if o]; outs = [o for o in _split(outs, ";") if o]
        fin = outs[-1]; calls, kind = int(fin[0]), int(fin[3]); cancel = int(cfg[1])
        deep = any(o[0] == "1" and int(o[1]) >= 2 for o in ops)
        if calls >= 2 and (cancel >= 0 or (kind == 1 and deep) or calls > 32):
            shape = " ".join(o[0] + (":" + o[1] if o[0] == "1" else "") for o in ops)
            return "k1:%s:c%d:%s" % (tok[2][0], cancel, shape)
        return None
    if tok[0] == "F":
        body = tok[3:]; args = body[:body.index("|")]
        if tok[1] == "retry_slot" and int(args[1]) >= 1 and int(args[2]) != 0: return "slot:" + " ".join(args)
        if tok[1] == "retry_calc" and int(args[1]) >= 1: return "calc:" + " ".join(args)
    return None

PROPS["C18"] = dict(
    pre_coq=[lambda: pure_pre_coq("retry")],   # C18_delay_source_*: calcExponentialRetry translated from the current retry.go
    level_text="Theorems (Properties/C18.v) over the executable closure model (retry.go:62-75 line by line) for EVERY outcome script (plain / nested fatal / "
               "success), cancellation point (before a check, during a call, during a wait), random oracle and rate: outcome clauses (first success; fatal "
               "fully unwrapped at any depth with that call's result; no call after cancellation, ctx error with nil result), delay before the k-th retry = "
               "j*rate with 0 <= j <= 2^min(k,31)-1 (uint32/int64 wraps explicit, vacuous under the cap 31), default rate, wait cut by cancellation; five "
               "refuted variants. Tie: K1 through the repository's own seams (waitDuration, calcExponentialRetry), the real calcExponentialRetry sampled for "
               "c in 0..40 with an exact twin generator, real waitDuration under monitors, constants compared at run time."
               " Added (DESIGN 5b): interleaved non-fatal wrappers ('at any depth' holds for consecutive nesting, refuted beyond), timed wait theorem. Source tie: calcExponentialRetry translated from the current retry.go and proved equal to the model's delay for every duration, counter and random oracle (C18_delay_source_*).",
    level_note="Trusted: Coq kernel, extraction, OCaml glue, Go harness; math/rand.Int63n's range contract is the oracle hypothesis; timers and context are the "
               "Go runtime's; timing monitors use bounds of at least 1 s.",
    rule="C18K1: seeded scripts of 0-40 plain failures then success / fatal depth 1-4 / nothing, rates <= 0 .. 2^32 ns, nil and custom contexts, cancellation "
         "never / before the first check / inside a call / inside a wait, closure re-invoked; C18F: constants, real delay function for c in 0..40 (+2^16, 2^31, "
         "MaxUint32) x 6 rates, exact twin math/rand differential, real waitDuration. non-trivial = K1 case with >= 2 calls and a cancellation point, a "
         "consumed fatal error nested >= 2 deep, or > 32 calls; or a real delay sample with c >= 1 and non-zero delay; distinct by script shape"
         " A quarter of the base errors are NON-fatal errors whose Unwrap chain contains a fatal error (plain errors for the loop; returned unchanged when wrapped by FatalError).",
    stages=[corr_stage("C18K1", 6000, 6000, feature=feat_c18, seeds=3),
            corr_stage("C18F", 30, 60, params=None, feature=feat_c18),
            corr_stage("C18ERRS", 3000, 20000, validate=False),
            corr_stage("C18DEADLINE", 120, 600, validate=False)],
)


# ---------------------------------------------------------------------------------------------------------------
# C08 ChanCaster
# ---------------------------------------------------------------------------------------------------------------
def feat_c08(tok):
    if tok[0] != "F":
        return None
    body = tok[3:]
    bar = body.index("|")
    args, res = body[:bar], body[bar + 1:]
    if tok[1] == "caster_add":
        whi, wlo, dkind, delta = args
        if res[0] == "0" and (whi != "0" or delta != "0"):
            return "add:" + " ".join(args)
        if res[0] == "1" and (res[1], res[2]) != (whi, wlo):
            return "addp:" + " ".join(args)        # panicked AFTER modifying the word
        return None
    if tok[1] == "caster_send":
        return "send:" + " ".join(args) if res[4] != "0" else None
    if tok[1] == "caster_send_cas":
        return "cas:" + " ".join(args) if args[4] == "1" else None
    if tok[1] == "caster_round":
        r, d = int(args[0]), int(args[1])
        return "round:%s:%s" % (tok[2].split("-")[1] if "-p" in tok[2] else "", " ".join(args)) if 0 < d else None
    return None

def c08_trace_params(exe):
    return {"ptfile": os.path.join(os.path.dirname(exe), "instr", "points.txt")}

PROPS["C08"] = dict(
    rule="C08F: Add on hand-set state words (8 boundary counts x 8 lo shapes x 26 deltas incl. +-MaxInt32(+1), MinInt64, MaxInt64, plus seeded "
         "valid / wrap-around / arbitrary 64-bit words) and Send on hand-set words with the word overwritten between two channel sends; "
         "panicked/new word/return/absorbed must equal the extracted Model/Caster.v. C08K2: unbuffered casters used per contract (1-5 receivers: "
         "Add(1) then receive-or-Add(-1); 1-2 concurrent Sends; phase-separated rounds decided by the model) with monitors (return = receivers "
         "that got the value; registered-before-and-not-deregistered => received; nothing received from a Send that returned before the Add; "
         "Add(0)=0 and word 0 afterwards; no panic; no call blocked after 2 s) + misuse sequences that must panic. C08S (instrumented): Send's final "
         "load/CAS taken apart by a hook at the instrumentation point between them (decided by send_end_cas), and the monitors under a delay-bounded "
         "sweep (1.5 ms at every point of chancaster.go hit, k-th hit <= 2) of 4 scenarios (racing deregistration, late registration, both, all "
         "deregister). non-trivial = Add that returned/absorbed/panicked after modifying, Send that armed, word changed between load and CAS, round "
         "with a racing deregistration; distinct by arguments (and sweep point)"
         " C08K2's misuse section replays the two buffered-channel histories of known findings F7/F7b.",
    level_text="Theorems (Properties/C08.v). Word level, all 64-bit words and all deltas: Add oracle, send_begin/send_end(/cas) specs, out-of-range/"
               "unbalanced Adds panic, running-sum characterisation. Protocol level (counter abstraction + one tracked receiver, any number of "
               "senders/receivers, every schedule at lock/atomic/channel-operation granularity): no false panic, no stolen copy, ret = delivered, "
               "ret + absorbed = registered at arming, word 0 after Send, exactly-once per counted receiver, late registration blocked until unlock, "
               "racing deregistration removes-before-count or absorbs exactly one, deadlock freedom + termination measure; two mutation refutations. "
               "'every later call panics too' is refuted (C08_sticky_refuted, finding F4, known) and replaced by C08_sticky_until_compensated_partial."
               " Added (DESIGN 5b): word<->protocol bridge along every schedule, Add(+-n) = n unit Adds, late registration over runs and served by a later Send, channel capacity parameter: buffered capacity refuted (known findings F7/F7b), safe regimes proved (69 obligations). Step-level tie: C08TRACE, trace acceptance of instrumented runs by the extracted CasterAbs.step with the word carried by CasterBridge.wrun.",
    level_note="PARTIAL on the parenthetical 'every later call panics too' (false of the code: known finding F4). Trusted: hand-written models; "
               "CasterAbs.v abstracts the word to (count, armed) assuming counts far below MaxInt32 (overflow is covered at word level only); "
               "sync.RWMutex writer preference as modelled; protocol theorems are for unbuffered channels; harness logical clock and 2 s hang deadline.",
    stages=[corr_stage("C08TRACE", 400, 4000, params=c08_trace_params, instrument=True,
                       feature=lambda tok: " ".join(tok[5:62]) if tok[0] == "F" else None),
            corr_stage("C08F", 20000, 20000, feature=feat_c08, seeds=2),
            corr_stage("C08K2", 6000, 6000, feature=feat_c08, seeds=3),
            corr_stage("C08S", 12, 12, feature=feat_c08, instrument=True, shards=4, params=c08_trace_params, tparams={"points": 1000})],
)

# ---------------------------------------------------------------------------------------------------------------
# C14 Workers
# ---------------------------------------------------------------------------------------------------------------
def feat_c14(tok):
    body = tok[tok.index("#") + 1:] if "#" in tok else tok[3:]
    if tok[0] == "K1":
        cfg = tok[3:tok.index("#")]
        ops, _ = _split(body, "|")
        ops = [o for o in _split(ops, ";") if o]
        tworun = queued = False; acts = []
        for o in ops:
            na = int(o[0]); rest = o[1 + 2 * na:]
            acts.append(" ".join(o[:1 + 2 * na]))
            if int(rest[3]) >= 2: tworun = True
            if int(rest[1]) >= 1: queued = True
        return ("k1:" + " ".join(cfg) + "#" + ";".join(acts)) if (tworun and queued) else None
    if tok[0] == "F" and tok[1] == "c14_wait_order":
        return "waitorder:" + tok[2]
    if tok[0] == "F":
        args = body[:body.index("|")]
        if len(set(args)) > 1: return "burst:" + " ".join(args)
    return None

PROPS["C14"] = dict(
    level_text="Theorems (Properties/C14.v, 18, all closed): for every program (any number of callers, any scripts of Call k / Wait / Count, any count arguments) "
               "and every schedule of the thread-table model of workers.go (one step per critical section): each call's function runs exactly once before its "
               "Call returns and the value returned is its own (C14_exactly_once); #running <= count = #live workers <= largest count requested so far, <= N "
               "when every caller passes <= N (C14_bound, C14_bound_uniform); a non-empty queue always has a live worker and every terminal state has an empty "
               "queue, no worker, every Call returned (C14_no_strand), with a strictly decreasing measure and extension of every run to a terminal one; Wait "
               "returns only at count = 0 and Count stays 0 until the next Call; four one-token mutations refuted on the same step function. Tie: gated quiescent "
               "scenarios decided by search over the extracted step function, free-running bursts decided by monitors and the model's terminal state."
               " Added (DESIGN 5b): delivery to the own caller, FIFO, Wait's return state; assumptions A1 (functions terminate) / A2 (no call back into the same pool) explicit, A2 with a refutation reproduced on the Go code (30 obligations).",
    level_note="Trusted: Coq kernel, extraction, OCaml adapter (interleaving exploration is untrusted glue that only applies the extracted step), Go harness and "
               "goroutine-dump quiescence detection; each modelled step is atomic under Workers.mutex (C11); Wait's cond loop modelled as a step enabled at count = 0; "
               "user functions terminate and do not panic; results modelled as call ids.",
    rule="C14K1: 2-6 caller goroutines x 1-3 ops (Call k, k in 1..5 random/uniform/decreasing/increasing; Wait; Count; Call 0), functions gated, 1-3 simultaneous "
         "actions per step, quiescence after each; observation must be reachable in the model by some interleaving; monitors strand/bound/twice/leftover. C14K2: "
         "bursts of 6-35 concurrent Calls, monitors + F record vs model terminal state. C14L: lock-queue choreography on Workers.mutex forcing "
         "worker-exit < Call < woken Wait (starvation-mode FIFO hand-off verified from the mutex word); Wait must not have returned while the new worker's "
         "function is held; reported only if 3/3 repetitions with verified order agree; F record vs the model run for that order. non-trivial = K1 case with >= 2 functions running and a non-empty queue at "
         "quiescent points (distinct by program + action sequence), or a burst with >= 2 different counts",
    stages=[corr_stage("C14K1", 600, 2500, feature=feat_c14, seeds=3),
            corr_stage("C14K2", 1000, 2000, feature=feat_c14, seeds=3),
            corr_stage("C14L", 100, 400, feature=feat_c14, seeds=3)],
)

# ---------------------------------------------------------------------------------------------------------------
# C17 Worker
# ---------------------------------------------------------------------------------------------------------------
def feat_c17(tok):
    body = tok[tok.index("#") + 1:]
    if tok[0] == "K1":
        ops, outs = _split(body, "|")
        ops = [o for o in _split(ops, ";") if o]; outs = [o for o in _split(outs, ";") if o]
        if any(int(o[5]) > 0 for o in outs) and int(outs[-1][1]) >= 2:
            return "k1:" + " ".join(";".join(x) for x in ops)
        return None
    if tok[0] == "K2":
        recs = [r for r in _split(body, ";") if r]; kinds = []; restart = False
        for r in recs:
            op = _split(r, ":")[1]; kinds.append(",".join(op))
            if op[0] == "2" and int(op[1]) >= 1: restart = True
        if restart and len(recs) >= 6: return "k2:" + " ".join(kinds)
    return None

def c17_trace_params(exe):
    return {"ptfile": os.path.join(os.path.dirname(exe), "instr", "points.txt")}

PROPS["C17"] = dict(
    level_text="Theorems (Properties/C17.v) over an interleaving model of worker.go (Do critical section, done(), watcher and do-goroutine steps; WaitGroup objects as "
               "generations): single instance; held => instance exists, stop open, function not returned; stop closed only by the watcher holding mu after every done; "
               "Do blocked during the stop phase then starts a fresh instance; terminal states have everything stopped + decreasing measure; no panic; three refuted "
               "variants. Tie: K1 gated quiescent runs vs extracted kstep oracle, K2 free-running histories linearized vs extracted step, MONITOR lines for overlap / "
               "stop-open-while-held / leak."
               " Added (DESIGN 5b): progress, drain theorem from every reachable state with a tight bound, parked Do callers as state (no waiter stranded), literal 'held => running' refuted for early-returning functions (28 obligations). Step-level tie: C17TRACE, trace acceptance of instrumented runs by the extracted WorkerWait.pstep / Worker.step.",
    level_note="Trusted: Coq kernel, extraction, OCaml glue, Go harness (goroutine-dump quiescence; in-package TryLock peeks at Worker.stop). Assumes the instance "
               "function returns only after seeing stop closed and each done is called at most once.",
    rule="K1: seeded scripts of Do (own goroutine)/done(h)/release-instance/Do(nil), quiescence after each action; vector (Do returned, instances started, saw stop, "
         "returned, library goroutines above baseline, blocked Do calls) must equal the model's. K2: 2-5 goroutines x 1-3 Do..done holds with jitter, or a relay where "
         "the last done races the next Do; history incl. instance start/saw-stop/return events must be a model history. non-trivial = K1 case where a Do was blocked "
         "by a stop phase and a second instance started, or K2 history with >=6 ops and an instance restart; distinct by op sequence",
    stages=[corr_stage("C17TRACE", 300, 3000, params=c17_trace_params, instrument=True, tparams={"slow": 3},
                       feature=lambda tok: " ".join(tok[5:45]) if tok[0] == "F" else None),
            corr_stage("C17K1", 600, 2000, feature=feat_c17, seeds=3),
            corr_stage("C17K2", 800, 5000, feature=feat_c17, seeds=3),
            corr_stage("C17SLOW", 10, 40, validate=False)],
)

# ---------------------------------------------------------------------------------------------------------------
# C20 LinearAttempt
# ---------------------------------------------------------------------------------------------------------------
def feat_c20(tok):
    if tok[0] == "K1":
        body = tok[tok.index("#") + 1:]
        ops, outs = _split(body, "|")
        ops = [o for o in _split(ops, ";") if o]
        # non-trivial: the scenario cancelled or received after the call (a producer existed)
        if len(ops) >= 3 and tok[3] != "1":
            return "k1:" + tok[3] + ":" + ";".join(" ".join(o) for o in ops)
        return None
    if tok[0] == "F" and tok[1] == "attempt_obs":
        args = tok[3:tok.index("|")]
        count, nrecv, nafter = int(args[0]), int(args[1]), int(args[3])
        if (count >= 2 and nrecv >= 2) or nafter > 0 or nrecv < count:
            return "obs:" + " ".join(args)
    return None

PROPS["C20"] = dict(
    level_text="Theorems (Properties/C20.v, 17) over an interleaving model of attempt.go (caller steps, producer one step per statement, ticker that drops ticks "
               "when one is pending, canceller, receiver enabled only when it would not block), for every count >= 1 and every schedule: first value present on "
               "return (or closed and empty when pre-cancelled); at most count values; buffer <= 1; non-decreasing timestamps; every library-quiet state is closed "
               "with the producer gone, after count values or a cancellation; at most one send and two receives after the cancel step; producer progress/exit; five "
               "refuted variants (count on dropped tick, no re-check, blocking send, no close on count=1, capacity 2). Tie: K1 deterministic cases decided by the "
               "extracted kstep, timed runs decided by obs_ok plus timing-independent MONITOR lines, capacity compared at run time."
               " Added (DESIGN 5b): after-cancel bounds over the observable sent/received lists.",
    level_note="Trusted: runtime semantics of time.Ticker (channel of capacity 1, drops ticks; timestamps non-decreasing for periods >= 200 us) and of buffered channels; "
               "liveness is terminal-state + rank, assuming an armed ticker keeps firing; deadlines >= 20 x rate + 200 ms.",
    rule="C20K1: deterministic cases (pre-cancelled, count 1, rate 1 h with receives/cancels in every order, rate 1-3 ms observed only when the producer is parked) "
         "decided by the model; C20T: per unit one millisecond-scale case (rates 2-5 ms / 0.2-1 ms / 1-40 us; receiver prompt, slow or absent; five cancellation "
         "plans) plus four race cases (rate 1 ns - 1 us, spinning receiver, instantaneous cancel). non-trivial = K1 case in which a producer existed and the scenario "
         "received or cancelled after the call, or a timed case cut short by cancellation / with values after cancellation / completed with count >= 2; distinct by tuple",
    stages=[corr_stage("C20K1", 1500, 6000, feature=feat_c20, seeds=2),
            corr_stage("C20T", 1200, 5000, feature=feat_c20, seeds=2),
            corr_stage("C20EDGE", 24, 200, validate=False)],
)

# ---------------------------------------------------------------------------------------------------------------
# C16 context combinators
# ---------------------------------------------------------------------------------------------------------------
def feat_c16(tok):   # non-trivial: a cancel during/after the call changes an observable
    if tok[0] != "K1" or tok[2].startswith("race-"): return None
    i = tok.index("#"); cfg = tok[3:i]; ops, outs = _split(tok[i+1:], "|")
    ops = [o for o in _split(ops, ";") if o]; outs = [o for o in _split(outs, ";") if o]
    prev = None; hit = False
    for o, r in zip(ops, outs):
        if o[0] in ("0", "5"):
            prev = r
            if o[0] == "5" and (r[0] == "1" or r[1] == "1"): hit = True
        elif o[0] in ("1", "2") and prev is not None:
            if r[:3] != prev[:3]: hit = True
            prev = r
    return ("k%s:%s#%s" % (cfg[0], " ".join(cfg), ";".join(" ".join(o) for o in ops))) if hit else None

PROPS["C16"] = dict(
    level_text="Theorems (Properties/C16.v, 21) over a model of the std context package (forest of nodes, atomic cancel cascade, AfterFunc registrations "
               "Pending/Stopped/Fired with the callback in its own goroutine, atomic stop()) and the three functions of context.go as program-counter machines, one "
               "step per std/WaitGroup call, for EVERY input forest (aliasing, ancestry, nil others), pre-cancelled subset and schedule: ChainAfterFunc runs f never "
               "twice, never if neither context is cancelled, exactly once at quiescence if either is; CombineContext is cancelled only if / at quiescence iff the "
               "primary or a non-nil other is, already at return if an input already is, carries the primary's values, leaves no registration pending; "
               "ConflatedContext stays live while a construction-time-live input is live and cancel() was not called, is cancelled once all are, its WaitGroup never "
               "goes negative, its waiter exits, values only from the first input; progress measures; four refuted variants. Tie: K1 quiescent differential runs over "
               "every pre-cancelled subset x cancel order (exhaustive shapes) + seeded forests, barrier-released simultaneous cancels with monitors."
               " Added (DESIGN 5b): split-cancellation model (per-node marking, per-child propagation, per-registration firing) with every theorem re-proved; quiescence is reached for all three combinators (80 obligations).",
    level_note="Trusted: the std context model (atomic cascade, values fixed at creation), scheduler fairness for liveness ('promptly' = at every quiescent state + "
               "decreasing measure), Coq kernel, extraction, OCaml glue, Go harness (quiescence = no other goroutine runnable in one goroutine dump).",
    rule="C16K1 EXHAUSTIVE over every pre-cancelled subset x every later cancel order for: ChainAfterFunc with independent / same / parent-child (both ways) / sibling "
         "contexts and a cancel between its two registrations; CombineContext with 0..3 others x every nil pattern x nil/non-nil primary; ConflatedContext with 1..3 "
         "inputs (4 thorough) x cancel() at every position; plus seeded random forests. Outputs per op (cancelled, f calls, pending registrations, waiter goroutines, "
         "result identity) and Value lookups must equal the model. C16RACE: simultaneous cancels released by a barrier, half racing the call itself, with monitors. "
         "non-trivial = K1 case in which a cancel during or after the call changes an observable; distinct by configuration + op sequence",
    stages=[corr_stage("C16K1", 1500, 1500, params={"maxn": 3, "kinds": 1}, feature=feat_c16, seeds=3),
            corr_stage("C16RACE", 10000, 20000, params={"kinds": 1}, feature=feat_c16, seeds=3),
            corr_stage("C16K1", 2500, 4000, params={"maxn": 3, "kinds": 6}, tparams={"maxn": 4}, feature=feat_c16, seeds=3),
            corr_stage("C16RACE", 15000, 30000, params={"kinds": 6}, feature=feat_c16, seeds=3)],
)

# ---------------------------------------------------------------------------------------------------------------
# C06 / C07 ChanPubSub
# ---------------------------------------------------------------------------------------------------------------
def feat_pubsub(tok):
    # F pubsub_case <id> senders subscribers iterators sends receipts leaves_mid_send overlapping_send_pairs | 1
    if tok[0] != "F": return None
    if tok[1] != "pubsub_case": return tok[1] + ":" + " ".join(tok[3:])
    a = tok[3:tok.index("|")]; mid, conc, recv = int(a[5]), int(a[6]), int(a[4])
    if "-p" in tok[2]: return tok[2]                                   # sweep run with an injected delay
    if recv > 0 and (mid > 0 or conc > 0): return tok[2] + ":" + " ".join(a)
    return None

_PS_NOTE = ("Trusted: hand-written counter-abstraction models (Model/PubSubAbs.v: number of threads at each program point, one step per lock/atomic/channel "
            "operation; Model/PubSubTag.v adds one individually tracked subscription); their tie to chanpubsub.go is the Go monitors on free-running programs and "
            "the delay-bounded sweep over the real code's synchronisation points — an abstract model with anonymous subscribers cannot decide a concrete history. "
            "SubscribeContext's AfterFunc/stop/iterator pairing has its own swept model (Model/PubSubIter.v); every subscriber is tracked by index in Model/PubSubIdx.v "
            "(the 'n distinct subscriptions' step is a theorem); the fused atomic steps are split in Model/PubSubSplit.v. Not modelled (exercised by the harness only): "
            "checkBroken, |delta| > 1, Add(0), channel close. sync.RWMutex writer preference and TryRLock as modelled.")

def c06_trace_params(exe):
    return {"ptfile": os.path.join(os.path.dirname(exe), "instr", "points.txt")}

_C06_TRACE = lambda: corr_stage("C06TRACE", 300, 3000, params=c06_trace_params, instrument=True,
                                feature=lambda tok: " ".join(tok[5:65]) if tok[0] == "F" else None)

PROPS["C06"] = dict(
    rule="C06K2: free-running programs, 1-3 senders x 1-4 tagged values, 2-6 subscribers in seven styles (manual with quota, manual on a timer, iterator cancelled, "
         "iterator break, iterator never run then cancelled, iterator cancelled then run, a standing anchor), joins/leaves at seeded points incl. mid-Send; monitors on "
         "the tick log: receipts of v = Send's return by distinct subscriptions, standing subscriptions included, no duplicate, no stale value, Send returns only after "
         "its receivers acknowledged, one global order (checked exactly against the anchor), zero-subscriber Sends return 0. C06S (instrumented): five fixed races "
         "(leave/cancel/join during Send and vice versa) under a 1.5 ms delay at every synchronisation point hit (k-th hit <= 3). non-trivial = case with receipts and a "
         "mid-Send leave or overlapping Sends, or a sweep run; distinct by case tuple / sweep point",
    level_text="Theorems (Properties/C06.v, 18): on the counter abstraction, for any number of senders and subscribers and every schedule: no copy goes to a subscriber "
               "not counted by the Send (receive by an uncounted subscriber is never enabled), Send's return value = receivers blocked in Wait and it returns only after "
               "all acknowledged, Sends are serialised, zero-subscriber Sends return without delivering; on the tagged extension (whose base is proved to be an abstract "
               "run): the tracked subscription's receipts are a contiguous run of the round order, no duplicate, no stale round, standing subscriptions are included; "
               "refuted without the write lock. Tie: Go monitors + delay-bounded sweep."
               " Added (DESIGN 5b): every subscriber tracked by index (received by exactly `sent` distinct subscribers), standing => included from an invariant, split atomic steps re-proved (38 theorems). Step-level tie: C06TRACE, trace acceptance of instrumented runs by the extracted PubSubTraceAux.jstep (PubSubSplit.xstep + PubSubIdx bookkeeping, PubSubIter for iterator subscriptions).",
    level_note=_PS_NOTE,
    stages=[_C06_TRACE(),
            corr_stage("C06K2", 4000, 6000, feature=feat_pubsub, seeds=3),
            corr_stage("C06S", 6, 10, feature=feat_pubsub, instrument=True, shards=6, tparams={"hits": 6}, timeout=1200),
            corr_stage("C06SUBCTX", 48, 400, feature=feat_pubsub, validate=False)],
)
PROPS["C07"] = dict(
    pre_coq=[lambda: pure_pre_coq("sanity")],   # C07_sanity_source_*: sanityCheckSubscribersDelta translated from the current chanpubsub.go
    rule="C06K2 and C06S as for C06 (different programs: salt 7) with the C07 monitors: every call returns within 3 s (hang = MONITOR with the blocked calls), no panic "
         "under contract-following use, final Add(0) = subscribes - unsubscribes, a later Send still works, instance not broken; C07SAN: sanityCheckSubscribersDelta "
         "and addSubscribers over boundary int32 values against the extracted PubSubSanity model. non-trivial as C06; sanity cases distinct by arguments",
    level_text="Theorems (Properties/C07.v, 12): no reachable state takes an invariant-panic transition (bad = 0), every quiescent/terminal reachable state has all calls "
               "returned (deadlock freedom) with a strictly decreasing measure (every run finite, explicit bound), final subscriber count = subscriptions - "
               "unsubscriptions with the caster idle, sanityCheckSubscribersDelta fires iff the int32 arithmetic wrapped or a value is negative (explicit mod 2^32); "
               "refuted when an unsubscribe during delivery is not routed through the caster. Tie: Go monitors + delay-bounded sweep + sanity differential."
               " Added (DESIGN 5b): SubscribeContext AfterFunc/stop/iterator pairing model (at most one Unsubscribe, exactly one in terminal states after cancel-or-run; ignoring stop() refuted), split-step model (30 theorems). Step-level tie: C06TRACE (as C06). Source tie: sanityCheckSubscribersDelta translated from the current chanpubsub.go and proved equal to the model for all arguments (C07_sanity_source_*).",
    level_note=_PS_NOTE,
    stages=[_C06_TRACE(),
            corr_stage("C06K2", 4000, 6000, feature=feat_pubsub, seeds=3, params={"salt": 7}),
            corr_stage("C06S", 6, 10, feature=feat_pubsub, instrument=True, shards=6, params={"salt": 7}, tparams={"hits": 6}, timeout=1200),
            corr_stage("C07SAN", 3000, 20000, feature=feat_pubsub),
            corr_stage("C06SUBCTX", 48, 400, feature=feat_pubsub, validate=False, params={"salt": 7})],
)


def feat_c15(tok):
    if tok[0] != "F":
        return None
    body = tok[3:]
    bar = body.index("|")
    args, res = body[:bar], body[bar + 1:]
    if tok[1] == "notifier_publish":
        n = int(args[1])
        subs = [args[2 + 4 * i: 6 + 4 * i] for i in range(n)]
        evs = args[3 + 4 * n:]
        pending = [s for s in subs if s[3] == "1" and not (s[1] == "1" and s[2] == "1")]
        guarded_mid = any(s[1] == "1" for s in pending[1:-1]) if len(pending) >= 3 else False
        # non-trivial: >= 2 deliveries with >= 3 pending subscriptions and a context-guarded one strictly inside the slices,
        # or a cancellation event for a pending guarded subscription followed by a delivery
        if (int(res[1]) >= 2 and guarded_mid) or (int(res[1]) >= 1 and "1" in evs[0::2] and any(s[1] == "1" for s in pending)):
            return "pub:" + " ".join(args)
        return None
    if tok[1] == "notifier_registry":
        ops = [args[1 + 3 * i: 4 + 3 * i] for i in range(int(args[0]))]
        kinds = set(o[0] for o in ops)
        if {"0", "1", "2"} <= kinds and "0" in res:
            return "reg:" + " ".join(args)
    return None

def c15_trace_params(exe):
    return {"ptfile": os.path.join(os.path.dirname(exe), "instr", "points.txt")}

PROPS["C15"] = dict(
    level_text="Theorems (Properties/C15.v): PublishContext's three parallel slices with the index re-basing loop (early break) as coded keep a "
               "representation invariant (refs strictly increasing, in range, pointing at the guarded sends) under EVERY select outcome and equal a "
               "set-of-pending-subscriptions specification for every event sequence and map-iteration order; hence exactly once, only eligible "
               "(assignable, not already cancelled) subscriptions receive, Publish returns iff everyone pending was served or cancelled or the publish "
               "context fired; registry: duplicate Subscribe / unmatched Unsubscribe panic (registry untouched), Unsubscribe barrier, other keys untouched, "
               "empty-key cleanup invisible. Refuted on the same transition function: ref not removed, decrement-before-test; '<' for '<=' in the break "
               "test is proved an EQUIVALENT mutant. Tie: K1 single-ready-case runs of the real PublishContext decided by the extracted run_publish and "
               "spec_publish, registry sequences decided by subscribe/unsubscribe/lookup, SubscribeCancel leak/barrier monitors, concurrent stress monitors."
               " Added (DESIGN 5b): per-subscriber liveness, prefix form of returns-only-when-served, context-carrying registry, Subscribe/Unsubscribe/Publish interleaving machine under the RWMutex discipline (40 obligations). Step-level tie: C15TRACE, trace acceptance of instrumented runs by the extracted NotifierLock.step.",
    level_note="Trusted: Coq kernel, extraction, OCaml adapter, Go harness (quiescence detection makes exactly one select case ready at a time; reflect.Select's "
               "choice among SEVERAL ready cases is not modelled - the theorems hold for every choice); the compat column of each record is a hand-written "
               "table (value kind x element type), not reflect.AssignableTo. The RWMutex (publish under RLock, registry fixed during a publish) is assumed (C11).",
    rule="C15K1: seeded cases, 1-5 subscriptions on one key with distinct unbuffered targets over 6 element types, contexts (some pre-cancelled), optional "
         "publish context (sometimes already cancelled), values int/string/*int/error/UNTYPED NIL; events (receive with 3 ms timeout / cancel / exit) applied "
         "one at a time with quiescence in between; delivered list and returned flag must equal run_publish = spec_publish; monitors: no panic, delivered "
         "value identical, other keys receive nothing, Publish returns once everyone is served. C15REG: Subscribe/Unsubscribe/Publish/Lookup sequences over "
         "2 keys x 3 targets, panics leave the in-package registry snapshot unchanged, SubscribeCancel barrier + goroutine baseline. C15K2: concurrent "
         "publishers x keys x SubscribeCancel receivers, exactly once per live subscriber. non-trivial = >=2 deliveries with a context-guarded "
         "subscription strictly inside >=3 pending, or a cancellation of a pending guarded subscription followed by a delivery; registry case with "
         "sub+unsub+publish and a panic; distinct by full record"
         " C15REG also subscribes with no / live / already cancelled contexts (a rejected duplicate must not replace the registered context) and checks that a publish blocked on SubscribeCancel subscriptions returns when their cancel functions are called.",
    stages=[corr_stage("C15TRACE", 500, 5000, params=c15_trace_params, instrument=True,
                       feature=lambda tok: " ".join(tok[5:60]) if tok[0] == "F" else None),
            corr_stage("C15K1", 2500, 6000, feature=feat_c15, seeds=3),
            corr_stage("C15REG", 2500, 5000, feature=feat_c15, seeds=2),
            corr_stage("C15K2", 100, 800, validate=False, seeds=2),
            corr_stage("C15UNSUB", 300, 1500, validate=False, seeds=2),
            corr_stage("C15TYPES", 7400, 74000, validate=False)],
)


# ---------------------------------------------------------------------------------------------------------------
# C09 / C10 Exclusive
# ---------------------------------------------------------------------------------------------------------------
def feat_c09(tok):
    # F exclusive_case id keys calls execs phasemask | 1 ; phasemask bits: 1 idle 2 sleep-window 4 running 8 gap 16 busy
    if tok[0] == "F" and tok[1] == "exclusive_case":
        keys, calls, execs, mask = (int(x) for x in tok[3:7])
        if (mask & (2 | 4 | 8 | 16)) and 0 < execs < calls:
            return "%d %d %d %d %s" % (keys, calls, execs, mask, tok[2].split("-")[0])
    return None

_EXCL_NOTE = ("Trusted: Coq kernel, extraction (ExtrOcamlBasic), OCaml adapter (count search over the extracted step), Go harness (logical clock, "
              "quiescence detection, gates inside the supplied functions). The counter abstraction (one key; two-key product) is hand-written from "
              "exclusive.go: each critical section on item.mutex is one step; Exclusive.mutex sections are part of the step that takes them; lock-order "
              "deadlock freedom (item before map) is argued, not modelled. Its tie to the code is the monitors on gated/free-running/delay-swept histories.")

def c09_trace_params(exe):
    return {"ptfile": os.path.join(os.path.dirname(exe), "instr", "points.txt")}

_EXCL_STAGES = lambda: [
    corr_stage("C09TRACE", 300, 3000, params=c09_trace_params, instrument=True,
               feature=lambda tok: " ".join(tok[5:45]) if tok[0] == "F" else None),
    corr_stage("C09K1", 1000, 6000, feature=feat_c09, seeds=3),
    corr_stage("C09K2", 800, 5000, feature=feat_c09, seeds=3),
    corr_stage("C09S", 6, 20, feature=feat_c09, instrument=True, shards=6, tparams={"points": 1000}),
    corr_stage("C09RATE", 150, 1500, validate=False),
    corr_stage("C10SHAREDOPT", 25, 150, validate=False),
    corr_stage("C09KEYS", 200, 2000, validate=False),
    corr_stage("C10WAITS", 150, 1500, validate=False),
    corr_stage("C10NORESOLVE", 120, 1200, validate=False),
]

PROPS["C09"] = dict(
    pre_coq=[lambda: c11_pre_coq()],   # C09_impl_* are stated over the lock/access facts translated from the current exclusive.go
    rule="C09K1: seeded gated scripts on 1-3 keys: calls of all 8 styles (Call, CallAfter, CallAsync, CallAfterAsync, Start, StartAfter, CallWithOptions "
         "work-style with and without ExclusiveStart) whose functions are held by the harness before resolve and/or before return, or return without "
         "resolving, issued while earlier work is idle / inside a CallAfter wait / running / resolved-not-returned, with quiescence waits between actions; "
         "C09K2: 4-12 free-running goroutines x 2-4 mixed calls; C09S: three 1-key scenarios (resolve-to-return gap, CallAfter wait, never-resolving work) "
         "on an INSTRUMENTED build, plain and with a 2 ms delay at every synchronisation point hit (k-th hit <= 2). Monitors on logical ticks: per-key "
         "[start, return] intervals never overlap; a call on an idle key completes within 500 ms while another key's work is held. non-trivial = case that "
         "issued a call while its key was sleeping/running/in the gap/busy and coalesced calls (executions < calls); distinct by (keys, calls, execs, phases)",
    level_text="Theorems (Properties/C09.v) on the counter abstraction of exclusive.go, any number of calls of both styles, every schedule: overlap = 0 "
               "(ExecStart only when the previous work function has returned: the step form excludes RWork, RWorkRes and RDone), the A.6 invariant, "
               "refutation when resolve clears the successor's running flag; two-key product: each key behaves as the one-key model on its own picks and "
               "no pick of a key is disabled or altered by whatever the other key does. Tie: monitors on implementation histories."
               " Added (DESIGN 5b): n-key product; map-lock sections checked on the lock/access facts translated from the current exclusive.go. Step-level tie: C09TRACE, trace acceptance of instrumented runs by the extracted ExclusiveVal.vstep re-checked through ExclusiveAbs.step.",
    level_note=_EXCL_NOTE,
    stages=_EXCL_STAGES(),
)
PROPS["C10"] = dict(
    rule="C09K1/C09K2/C09S (see C09). Monitors: every blocking/async call gets exactly one outcome (async channel: one value then closed; start-style: nil "
         "channel); the outcome is the (result, error) resolved by an execution of the same key whose start tick is after the call's invocation tick; "
         "callers answered by one execution agree; the executed function was supplied by a call of that key made before the start, executed once, and "
         "its supplier is answered by that very execution; a function returning without resolving yields errResolveNotCalled to all its callers and "
         "nobody hangs (2 s); every call (in particular Start/StartAfter) is followed by an execution start; executions <= calls; afterwards "
         "len(e.work) == 0, library goroutines back to baseline, a fresh Call runs its own function. The per-key counts must be the counts of a "
         "terminal state of the extracted model (exhaustive search for <= 4 calls, proved inequalities above). non-trivial as C09"
         " C10ASYNC: the work function hands resolve to a spinning goroutine and returns within nanoseconds of releasing it (1500 / 20000 batches of two coalesced callers): exactly one of the asynchronous resolve and the forced resolve-not-called takes effect - one outcome per caller, the same for both, no panic.",
    level_text="Theorems (Properties/C10.v): the tagged call is answered once, by the execution its item was bound to, whose ExecStart follows the "
               "call's first step; answered <= issued always and = issued in terminal states, nothing in flight, key not in the map (forced resolve "
               "included); every run terminates and a terminal state is reachable from every state; every call of either style is followed by an "
               "ExecStart on every completed continuation; executions <= calls; refuted without the forced resolve and with an unconditional escape hatch."
               " Added (DESIGN 5b): result values and supplier identity in the model (ExclusiveVal): coalesced callers receive the identical outcome of an execution begun after their call; the executed function is the last attacher's; unresolved work => error to every caller; k tracked calls. Step-level tie: C09TRACE (as C09).",
    level_note=_EXCL_NOTE + " Result and function identity of coalesced callers are proved on Model/ExclusiveVal.v (same protocol steps, k tracked calls, "
               "result values, attach numbers); that model is tied to the code through the base model it reuses step for step.",
    stages=_EXCL_STAGES() + [corr_stage("C10ASYNC", 1500, 20000, validate=False)],
)
