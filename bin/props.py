"""Per-property configuration of bin/check: stages (harness scenarios + model checks), non-triviality rules."""
import os, re, json, time, random
import vlib
from vlib import log

TRUSTED_BASE = [
    "Coq 8.16.1 kernel and vm_compute (no native_compute); coqchk re-check in the thorough tier",
    "no axioms: every Print Assumptions under Properties/*.v must report 'Closed under the global context'",
    "extraction: ExtrOcamlBasic only (Extract Inductive bool/option/unit/list/prod/sumbool, Extract Inlined Constant andb/orb/fst/snd/negb-style inlinings it declares); nat/positive/Z stay inductive; OCaml 4.13.1 + dune",
    "hand-written Gallina models (coq/Model/*.v) tied to /repo by the correspondence check: Go harness (harness/inpkg, overlaid in-package, rebuilt from /repo's working tree on every run) + checker/main.ml (history parsing, int encodings; linearization search untrusted, witness replayed through the extracted step)",
    "modelled, not verified: Go runtime and standard library (sync, sync/atomic, context, time, reflect, channels, scheduler fairness, memory model)",
]
ASSUMPTIONS = [
    "Go int offsets are unbounded (no overflow within 2^63 operations)",
    "each modelled critical section is atomic because it runs under the mutex named in the model (obligation of C11)",
]

class HarnessBuildError(Exception):
    pass

class RunCtx:
    def __init__(self, pid, tier, seed, ev, violations, known_hits, replay):
        self.pid, self.tier, self.seed, self.ev = pid, tier, seed, ev
        self.tier_budget = tier
        self.violations, self.known_hits, self.replay = violations, known_hits, replay
        self.evaluations = 0
        self.nontrivial = set()
        self.samples = []
        self.traces = 0
        self.stats = {}
        self.stage_log = []
        self.exhaustive = None
        self._exe = {}
        self.known = [k for k in vlib.known_findings() if k.get("property") == pid and k.get("status") == "known"]

    def exe(self, race=False, instrument=False):
        key = (race, instrument)
        if key not in self._exe:
            t0 = time.time()
            exe, out = vlib.build_harness(race=race, instrument=instrument)
            if exe is None:
                raise HarnessBuildError(out)
            log("harness %s built in %.1fs (%s)" % ("race" if race else "plain", time.time() - t0, out.strip().split("\n")[-1][:80] if out.strip() else "ok"))
            self._exe[key] = exe
        return self._exe[key]

    def budget(self, quick, thorough):
        return thorough if self.tier_budget == "thorough" else quick

    def violate(self, msg, obj, has_input=True):
        for k in self.known:
            if re.search(k["match"], msg):
                line = k["what"]
                if line not in self.known_hits:
                    self.known_hits.append(line)
                return
        self.violations.append((msg, obj, has_input))


def _canon(tokens):
    """canonical form of a program: values renamed in order of first appearance is overkill here; the op/out token string is
    already value-tagged, so distinct programs differ textually. We strip the case id."""
    return " ".join(tokens)

def corr_stage(scen, quick, thorough, params=None, feature=None, race=False, timeout=900, validate=True, seeds=1):
    """A stage that runs a harness scenario and has the checker decide every K1/K2/F record."""
    def run(ctx):
        exe = ctx.exe(race=race)
        n = ctx.budget(quick, thorough)
        for si in range(seeds if ctx.tier_budget == "thorough" else 1):
            seed = ctx.seed + si * 7919
            t0 = time.time()
            rc, rec, txt = vlib.run_scenario(exe, scen, seed, n, params, timeout=timeout)
            entry = dict(scenario=scen, seed=seed, n=n, params=params or {}, rc=rc)
            if rc != 0:
                tail = "\n".join(txt.strip().split("\n")[-40:])
                kind = "hang/timeout" if ("panic: test timed out" in txt or rc == 124) else "panic/crash"
                ctx.violate("harness scenario %s (seed %d) ended abnormally (%s):\n%s" % (scen, seed, kind, tail),
                            dict(kind="scenario-abort", scenario=scen, seed=seed, n=n, params=params or {}, output=tail))
                ctx.stage_log.append(entry)
                continue
            recs = vlib.read_records(rec) if os.path.exists(rec) else []
            ncase = 0
            for line in recs:
                tok = line.split()
                if tok[0] in ("K1", "K2", "F"):
                    ncase += 1
                    if feature:
                        f = feature(tok)
                        if f:
                            ctx.nontrivial.add(f)
                    else:
                        ctx.nontrivial.add(" ".join(tok[3:]) if tok[0] != "F" else " ".join(tok[1:2] + tok[3:]))
                    if len(ctx.samples) < 6 and (ncase % max(1, n // 3) == 1 or n < 6):
                        ctx.samples.append(line[:600])
                elif tok[0] == "STAT":
                    ctx.stats[scen + "." + tok[1]] = ctx.stats.get(scen + "." + tok[1], 0) + int(tok[2])
                elif tok[0] == "MONITOR":
                    ctx.violate("monitor failed on an implementation history: " + line[:400],
                                dict(kind="monitor", scenario=scen, seed=seed, n=n, params=params or {}, record=line))
                elif tok[0] == "EXHAUSTIVE":
                    ctx.exhaustive = True
            ctx.evaluations += ncase
            if validate and ncase:
                rc2, mism, summ, out = vlib.run_checker(rec)
                entry["checker"] = summ
                if rc2 != 0:
                    ctx.violate("checker failed on records of %s: %s" % (scen, out[-800:]),
                                dict(kind="checker-error", scenario=scen, seed=seed, output=out[-3000:]), has_input=False)
                bycase = {}
                for line in recs:
                    tok = line.split()
                    if len(tok) > 2 and tok[0] in ("K1", "K2", "F"):
                        bycase[tok[2]] = line
                seen = set()
                for m in mism:
                    kv = dict(p.split("=", 1) for p in m.split()[1:] if "=" in p)
                    cid = kv.get("case", "?")
                    if cid in seen:
                        continue
                    seen.add(cid)
                    ctx.violate("implementation history rejected by the model (%s): %s" % (scen, m[:500]),
                                dict(kind="correspondence", scenario=scen, seed=seed, n=n, params=params or {}, mismatch=m,
                                     record=bycase.get(cid, "")[:20000]))
                ctx.traces += ncase
            entry["cases"] = ncase
            entry["wall_s"] = round(time.time() - t0, 2)
            ctx.stage_log.append(entry)
            try:
                os.remove(rec)
            except OSError:
                pass
    return run

# ---------------------------------------------------------------------------------------------------------------
# features (what makes a case non-trivial), per property
# ---------------------------------------------------------------------------------------------------------------
def _split(tok, sep):
    out, cur = [], []
    for t in tok:
        if t == sep:
            out.append(cur); cur = []
        else:
            cur.append(t)
    out.append(cur)
    return out

def feat_c13(tok):
    if tok[0] == "K1":
        body = tok[tok.index("#") + 1:]
        ops, outs = _split(body, "|")
        ops = [o for o in _split(ops, ";") if o]; outs = [o for o in _split(outs, ";") if o]
        # non-trivial: a Rollback that succeeded followed later by a Get returning a value (a replay)
        rolled = False
        for o, r in zip(ops, outs):
            if o == ["3"] and r == ["3"]:
                rolled = True
            if rolled and o == ["0"] and r[0] == "0":
                return "k1:" + " ".join(";".join(x) for x in ops)
        return None
    if tok[0] == "K2":
        body = " ".join(tok[tok.index("#") + 1:])
        # non-trivial: at least two threads' operations overlap and a Get returned a value
        if ": 0 : 0 " in body:
            return "k2:" + re.sub(r"\d+ \d+ :", ":", body)
    return None

def feat_c03(tok):
    if tok[0] == "F":
        body = tok[3:]
        args = body[:body.index("|")]
        # non-trivial: at least one negative and one positive offset, or a forced trim
        if tok[1] == "default_cleaner":
            offs = [int(x) for x in args[1:]]
            if any(o < 0 for o in offs) and any(o > 0 for o in offs):
                return "dc:" + " ".join(args)
        else:
            mx, tg, size = int(args[0]), int(args[1]), int(args[2])
            if size > mx:
                return "fc:" + " ".join(args)
    return None

PROPS = {}
HOOK_COMMITS = []
NOTES = "See DESIGN.md. All checks: bin/check <id> quick|thorough. Fix commits in /repo are listed in known_findings.json."

PROPS["C13"] = dict(
    level_text="Theorems (Properties/C13.v): for every operation sequence the implementation-level Channel model (buffer + rollback counter as coded) "
               "refines a cursor specification; committed++Buffer() = taken prefix; Get returns the stream element under the cursor; rollback/commit "
               "laws; nothing taken after close. Tie: K1 sequential differential runs and K2 linearizability of concurrent histories against the extracted model.",
    level_note="Trusted: Coq kernel, extraction (ExtrOcamlBasic), OCaml checker glue, Go harness; Channel.mutex makes each method body atomic (C11); "
               "polling Get is observed through timeouts (an empty attempt = 6ms deadline).",
    rule="K1: seeded op sequences (SrcSend/Get/Commit/Rollback/Buffer/Close/Cancel/SrcClose) run on a real Channel, outputs must equal "
         "both the implementation-level model and the cursor specification; K2: 2-4 goroutines x 3-6 ops with a concurrent feeder, "
         "history must be linearizable w.r.t. the model. non-trivial = K1 case with a successful Rollback followed by a Get that "
         "returns a value (replay), or K2 history in which a Get returned a value; distinct by op sequence",
    stages=[corr_stage("C13K1", 400, 6000, feature=feat_c13, seeds=3),
            corr_stage("C13K2", 250, 4000, feature=feat_c13, seeds=3)],
)
PROPS["C03"] = dict(
    level_text="Theorems (Properties/C03.v): DefaultCleaner/FixedBufferCleaner/cleanupLogic clamp specifications for every size and offset list over Z. "
               "Tie: exhaustive small-domain + seeded differential run of the Go functions against the extracted model.",
    level_note="Trusted: Coq kernel, extraction, harness. Buffer-level retention clauses are added with the Buffer model.",
    rule="pure cleaners: EXHAUSTIVE over size 0..6 x offset lists of length <= L over -2..8 (L=3 quick, 4 thorough), fixed cleaner over "
         "max,target in -1..8 x size 0..8 x 6 offset lists, plus seeded large values; Go result must equal the model. non-trivial = "
         "offset list mixing negative and positive offsets, or a forced trim (size > max)",
    stages=[corr_stage("C03F", 2000, 40000, params=None, feature=feat_c03)],
)
