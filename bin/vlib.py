"""Shared machinery for /verif/bin/check and /verif/bin/setup (Python 3 stdlib only)."""
import hashlib, json, os, re, shutil, subprocess, sys, time, glob, atexit, random, threading

VERIF = os.path.dirname(os.path.dirname(os.path.abspath(__file__)))
REPO = os.environ.get("VERIF_REPO", "/repo")
COQ = os.path.join(VERIF, "coq")
CHECKER = os.path.join(VERIF, "checker")
HARNESS = os.path.join(VERIF, "harness")
CACHE = os.path.join(VERIF, ".cache")
# VERIF_OUT_DIR: mutation-testing aid (bin/seedtest): evidence and replays of runs against a patched worktree go
# elsewhere, so that /verif/evidence always describes runs against /repo itself
_OUT = os.environ.get("VERIF_OUT_DIR") or VERIF
EVID = os.path.join(_OUT, "evidence")
REPLAYS = os.path.join(_OUT, "replays")

GOENV = dict(os.environ, GOFLAGS="-mod=mod", GOPROXY="off", GOSUMDB="off", GOTOOLCHAIN="local", CGO_ENABLED="1")

_scratch = None
_scratch_lock = threading.Lock()
def scratch():
    """Per-process scratch directory (removed at exit).  Stages run shards in threads: the directory exists before any
    caller can see its name."""
    global _scratch
    with _scratch_lock:
        if _scratch is None:
            d = "/var/tmp/.bbchk-%d-%06x" % (os.getpid(), random.randrange(1 << 24))
            os.makedirs(d, exist_ok=True)
            atexit.register(lambda: shutil.rmtree(d, ignore_errors=True))
            _scratch = d
    return _scratch

def sh(cmd, cwd=None, env=None, timeout=1200, inp=None):
    """Run a command, return (rc, combined output). Never raises on failure/timeout."""
    try:
        p = subprocess.run(cmd, cwd=cwd, env=env, timeout=timeout, input=inp, stdout=subprocess.PIPE,
                           stderr=subprocess.STDOUT, shell=isinstance(cmd, str), text=True, errors="replace")
        return p.returncode, p.stdout
    except subprocess.TimeoutExpired as e:
        out = e.stdout if isinstance(e.stdout, str) else (e.stdout or b"").decode("utf8", "replace")
        return 124, (out or "") + "\n[timeout after %ss]" % timeout

def log(msg):
    print("[verif] " + msg, flush=True)

# ----------------------------------------------------------------------------------------------------------------
# Coq
# ----------------------------------------------------------------------------------------------------------------
FORBIDDEN = re.compile(r"\b(Admitted|admit|Axiom|Parameter|Conjecture|Unset Guard|bypass_check|Admit Obligations|"
                       r"type-in-type|impredicative-set)\b")

def coq_sources():
    """The files of the development, in coq/FILES (one path per line; files an author is still working on are not listed)."""
    out = []
    for line in open(os.path.join(COQ, "FILES")):
        line = line.strip()
        if line and not line.startswith("#"):
            out.append(os.path.join(COQ, line))
    out += sorted(glob.glob(os.path.join(COQ, "Gen", "*.v")))
    return out

def coq_hygiene():
    """grep for forbidden vernacular in every .v file (comments stripped). Returns list of offending 'file:line: text'."""
    bad = []
    for f in coq_sources() + sorted(glob.glob(os.path.join(COQ, "Extract", "*.v"))):
        src = open(f).read()
        # strip (nested) comments
        res, depth, i = [], 0, 0
        while i < len(src):
            if src.startswith("(*", i):
                depth += 1; i += 2
            elif src.startswith("*)", i) and depth > 0:
                depth -= 1; i += 2
            else:
                if depth == 0 or src[i] == "\n":
                    res.append(src[i])
                i += 1
        for n, line in enumerate("".join(res).split("\n"), 1):
            if FORBIDDEN.search(line):
                bad.append("%s:%d: %s" % (os.path.relpath(f, VERIF), n, line.strip()))
    return bad

def coq_make(jobs=16, timeout=3000, pid=None):
    """Full .vo build through coq_makefile (never -vos/-vok).  With pid: of Properties/<pid>.vo, everything it depends
    on, and every model (they are extracted); without: of the whole development.  A property's check does not build
    the other properties' files, so that an obligation of another property that breaks on the current tree (the
    generated locksets of C11) is reported for that property only."""
    files = [os.path.relpath(f, COQ) for f in coq_sources()]
    proj = "-Q . BB\n" + "\n".join(files) + "\n"
    pf = os.path.join(COQ, "_CoqProject")
    if not os.path.exists(pf) or open(pf).read() != proj:
        open(pf, "w").write(proj)
    mk = os.path.join(COQ, "Makefile.coq")
    rc, out = sh(["coq_makefile", "-f", "_CoqProject", "-o", "Makefile.coq"], cwd=COQ, timeout=120)
    if rc != 0:
        return False, out
    targets = []
    if pid:
        # the property file itself is compiled (once per change) by coq_property, which keeps its Print Assumptions output
        targets = property_deps(pid) + [f[:-2] + ".vo" for f in files if f.startswith("Model/") or f.startswith("Extract/")]
    rc, out2 = sh(["make", "-f", "Makefile.coq", "-j%d" % jobs] + targets, cwd=COQ, timeout=timeout)
    return rc == 0, out + out2

def property_deps(pid):
    """The .vo files Properties/<pid>.v requires directly (coqdep); make builds them with everything below them."""
    rc, out = sh(["coqdep", "-Q", ".", "BB", os.path.join("Properties", pid + ".v")], cwd=COQ, timeout=120)
    deps = []
    for line in out.split("\n"):
        if line.startswith("Properties/%s.vo" % pid) and ":" in line:
            deps = [d for d in line.split(":", 1)[1].split() if d.endswith(".vo")]
    return deps

THEOREM_RE = re.compile(r"^\s*(Theorem|Lemma|Corollary|Example)\s+([A-Za-z0-9_']+)", re.M)

def coq_property(pid, timeout=900):
    """Re-check Properties/<pid>.v on this run: recompile the file (its dependencies come from coq_make) and parse the
    Print Assumptions output.  Returns dict(obligations, discharged, theorems, assumptions, ok, log)."""
    f = os.path.join(COQ, "Properties", pid + ".v")
    res = dict(obligations=0, discharged=0, theorems=[], axioms=[], ok=False, log="")
    if not os.path.exists(f):
        res["log"] = "missing " + f
        return res
    src = open(f).read()
    names = [m.group(2) for m in THEOREM_RE.finditer(src)]
    thm_names = [m.group(2) for m in THEOREM_RE.finditer(src) if m.group(1) != "Example"]
    res["obligations"] = len(names)
    res["theorems"] = names
    t0 = time.time()
    # Compiled once per change: if Properties/<pid>.vo is newer than its source and than every .vo it requires (which
    # coq_make has just brought up to date, the files generated from /repo included) the output of the compile that
    # produced it is reused; otherwise the file is compiled now.
    vo = f[:-2] + ".vo"
    logf = os.path.join(CACHE, "props", pid + ".log")
    deps = [os.path.join(COQ, d) for d in property_deps(pid)]
    fresh = (os.path.exists(vo) and os.path.exists(logf) and deps and all(os.path.exists(d) for d in deps)
             and os.path.getmtime(vo) >= max([os.path.getmtime(f)] + [os.path.getmtime(d) for d in deps])
             and os.path.getmtime(logf) >= os.path.getmtime(vo) and os.environ.get("VERIF_NO_PROP_CACHE") != "1")
    if fresh:
        rc, out = 0, open(logf).read()
        res["reused_compile"] = True
    else:
        rc, out = sh(["coqc", "-Q", ".", "BB", os.path.join("Properties", pid + ".v")], cwd=COQ, timeout=timeout)
        os.makedirs(os.path.dirname(logf), exist_ok=True)
        if rc == 0:
            open(logf, "w").write(out)
        elif os.path.exists(logf):
            os.remove(logf)
        res["reused_compile"] = False
    res["log"] = out
    res["coqc_s"] = round(time.time() - t0, 2)
    if rc != 0:
        # which theorems compiled before the error? count "Closed under"/"Axioms:" blocks printed so far
        res["discharged"] = out.count("Closed under the global context") + out.count("Axioms:")
        return res
    closed = out.count("Closed under the global context")
    axioms = re.findall(r"Axioms:\n((?:.+\n?)+?)(?:\n|$)", out)
    res["axioms"] = [a.strip() for a in axioms]
    res["discharged"] = len(names)
    # every theorem must be followed by a Print Assumptions that is closed (we allow no axioms at all)
    n_print = len(re.findall(r"Print Assumptions", src))
    res["ok"] = (closed == n_print) and not axioms and n_print >= len([n for n in thm_names if n.startswith(pid)])
    res["closed"] = closed
    res["print_assumptions"] = n_print
    return res

def coqchk_property(pid, timeout=7200):
    """Independent re-check (coqchk) of Properties/<pid>.vo and everything it depends on; returns dict(ok, axioms, wall_s, tail).
    coqchk has no VM: it re-evaluates every vm_compute proof with the kernel's lazy machine (the 448k-state sweep of
    Proofs/ShutdownProto.v alone takes ~25 min), hence the generous timeout.  A positive result is reused as long as every compiled
    file of the development is byte-for-byte the one that was checked."""
    t0 = time.time()
    h = hashlib.sha256()
    for f in sorted(glob.glob(os.path.join(COQ, "*", "*.vo"))):
        h.update(f.encode()); h.update(open(f, "rb").read())
    key = h.hexdigest()
    cf = os.path.join(CACHE, "coqchk", pid + ".json")
    if os.path.exists(cf) and os.environ.get("VERIF_NO_PROP_CACHE") != "1":
        try:
            c = json.load(open(cf))
            if c.get("key") == key and c.get("ok"):
                return dict(ok=True, axioms=c["axioms"], rc=0, wall_s=round(time.time() - t0, 1), tail="", reused=True, checked_wall_s=c["wall_s"])
        except Exception:
            pass
    rc, out = sh(["coqchk", "-silent", "-o", "-Q", ".", "BB", "BB.Properties." + pid], cwd=COQ, timeout=timeout)
    m = re.search(r"\* Axioms:\s*(.*?)\n\s*\n", out, re.S)
    axioms = m.group(1).strip() if m else "?"
    bad = [k for k in ("type-in-type", "unsafe (co)fixpoints", "positivity is assumed") if re.search(re.escape(k) + r":\s*<none>", out) is None]
    res = dict(ok=(rc == 0 and axioms == "<none>" and not bad), axioms=axioms, rc=rc, wall_s=round(time.time() - t0, 1),
               tail="\n".join(out.strip().split("\n")[-14:]), reused=False)
    if res["ok"]:
        os.makedirs(os.path.dirname(cf), exist_ok=True)
        json.dump(dict(key=key, ok=True, axioms=axioms, wall_s=res["wall_s"]), open(cf, "w"))
    return res

# ----------------------------------------------------------------------------------------------------------------
# OCaml checker (extraction + dune)
# ----------------------------------------------------------------------------------------------------------------
def build_checker(timeout=1200):
    gen = os.path.join(CHECKER, "gen")
    os.makedirs(gen, exist_ok=True)
    for f in glob.glob(os.path.join(gen, "*.ml*")):
        os.remove(f)
    rc, out = sh(["coqc", "-Q", COQ, "BB", os.path.join(COQ, "Extract", "Extract.v")], cwd=gen, timeout=timeout)
    if rc != 0:
        return False, out
    # adapters that are present but not (yet) registered in main.ml are left out of the build
    main_src = open(os.path.join(CHECKER, "main.ml")).read()
    skip = []
    for f in sorted(glob.glob(os.path.join(CHECKER, "ad_*.ml"))):
        mod = os.path.basename(f)[:-3]
        if (mod[0].upper() + mod[1:] + ".init") not in main_src:
            skip.append(mod)
    dune = "(copy_files gen/*.ml)\n(copy_files gen/*.mli)\n(executable\n (name main)\n (modules :standard%s)\n (flags (:standard -w -a)))\n" % (
        (" \\ " + " ".join(skip)) if skip else "")
    if open(os.path.join(CHECKER, "dune")).read() != dune:
        open(os.path.join(CHECKER, "dune"), "w").write(dune)
    rc, out2 = sh(["dune", "build", "--root", ".", "./main.exe"], cwd=CHECKER, timeout=timeout)
    if rc == 0:
        # dune does not touch main.exe when the extracted code is unchanged: staleness is judged against a stamp
        os.makedirs(CACHE, exist_ok=True)
        open(os.path.join(CACHE, "checker.stamp"), "w").write(str(time.time()))
    return rc == 0, out + out2

def checker_exe():
    return os.path.join(CHECKER, "_build", "default", "main.exe")

def checker_stale():
    exe = checker_exe()
    if not os.path.exists(exe):
        return True
    stamp = os.path.join(CACHE, "checker.stamp")
    t = max(os.path.getmtime(exe), os.path.getmtime(stamp) if os.path.exists(stamp) else 0)
    deps = [os.path.join(COQ, l.strip()) for l in open(os.path.join(COQ, "FILES")) if l.startswith("Model/")] + \
           [os.path.join(COQ, "Extract", "Extract.v"), os.path.join(CHECKER, "dune")] + glob.glob(os.path.join(CHECKER, "*.ml"))
    return any(os.path.getmtime(d) > t for d in deps)

# ----------------------------------------------------------------------------------------------------------------
# Go harness: built from /repo's CURRENT working tree with the in-package files overlaid
# ----------------------------------------------------------------------------------------------------------------
def build_tools(timeout=600):
    """Go tools of /verif/harness/cmd/* (stdlib only), built into .cache/tools."""
    tools = os.path.join(CACHE, "tools")
    os.makedirs(tools, exist_ok=True)
    log_all = ""
    for d in sorted(glob.glob(os.path.join(HARNESS, "cmd", "*"))):
        name = os.path.basename(d)
        rc, out = sh(["go", "build", "-o", os.path.join(tools, name), "."], cwd=d, env=dict(GOENV, GOFLAGS=""), timeout=timeout)
        log_all += out
        if rc != 0:
            return False, log_all
    return True, log_all

def harness_files(pid=None):
    """In-package harness files that are integrated (harness/inpkg/FILES: `<file> <properties|*>`; other files in the
    directory are work in progress).  With pid: the files of that property's harness binary only."""
    d = os.path.join(HARNESS, "inpkg")
    res = []
    for l in open(os.path.join(d, "FILES")):
        l = l.strip()
        if not l or l.startswith("#"):
            continue
        parts = l.split()
        who = parts[1] if len(parts) > 1 else "*"
        if pid is None or who == "*" or pid in who.split(","):
            res.append(os.path.join(d, parts[0]))
    return res

def repo_go_files():
    return sorted(f for f in glob.glob(os.path.join(REPO, "*.go")))

def tree_hash(extra=(), pid=None):
    h = hashlib.sha256()
    for f in repo_go_files() + [os.path.join(REPO, "go.mod")] + harness_files(pid) + list(extra):
        h.update(f.encode()); h.update(b"\0")
        try:
            h.update(open(f, "rb").read())
        except OSError:
            pass
        h.update(b"\0")
    return h.hexdigest()[:20]

def build_harness(race=False, instrument=False, timeout=900, pid=None):
    """Returns (path to test binary or None, log). Library sources are the working tree of /repo; the repository's own
    _test.go files are excluded; harness files are added as zz_verif_*_test.go through -overlay (nothing is written to /repo)."""
    extra = sorted(glob.glob(os.path.join(HARNESS, "cmd", "instr", "*.go"))) if instrument else []
    key = tree_hash(extra=extra, pid=pid) + ("-race" if race else "") + ("-instr" if instrument else "")
    d = os.path.join(CACHE, "harness-" + key)
    exe = os.path.join(d, "verif.test")
    if os.path.exists(exe):
        return exe, "cached " + key
    # drop stale caches (disk is limited)
    if os.path.isdir(CACHE):
        def _mt(p):          # another build may be removing the same stale directory right now
            try:
                return os.path.getmtime(p)
            except OSError:
                return 0.0
        olds = sorted(glob.glob(os.path.join(CACHE, "harness-*")), key=_mt)
        for old in olds[:-30]:   # never a recent one: another check may be running from it
            if time.time() - _mt(old) > 3 * 3600:
                shutil.rmtree(old, ignore_errors=True)
    # built in a private directory and renamed into place: checks of properties that share a harness binary (same key) may
    # build it at the same time, in threads of bin/setup or in separate bin/check processes
    final_d, final_exe = d, exe
    d = "%s.tmp-%d-%d" % (final_d, os.getpid(), random.randrange(1 << 30))
    exe = os.path.join(d, "verif.test")
    os.makedirs(d, exist_ok=True)
    replace = {}
    for f in repo_go_files():
        if f.endswith("_test.go"):
            replace[f] = ""
    if instrument:
        okt, outt = build_tools()
        if not okt:
            shutil.rmtree(d, ignore_errors=True)
            return None, "building the instrumenter failed:\n" + outt
        idir = os.path.join(d, "instr")
        os.makedirs(idir, exist_ok=True)
        rc, out = sh([os.path.join(CACHE, "tools", "instr"), "-out", idir] + [f for f in repo_go_files() if not f.endswith("_test.go")],
                     cwd=REPO, env=GOENV, timeout=300)
        if rc != 0:
            shutil.rmtree(d, ignore_errors=True)
            return None, "instrumenter failed:\n" + out
        for f in glob.glob(os.path.join(idir, "*.go")):
            replace[os.path.join(REPO, os.path.basename(f))] = f
    for f in harness_files(pid):
        replace[os.path.join(REPO, "zz_verif_" + os.path.basename(f)[:-3] + "_test.go")] = f
    ov = os.path.join(d, "overlay.json")
    json.dump({"Replace": replace}, open(ov, "w"))
    cmd = ["go", "test", "-c", "-tags", "verif", "-vet=off", "-overlay", ov, "-o", exe]
    if race:
        cmd.insert(3, "-race")
    rc, out = sh(cmd + ["."], cwd=REPO, env=GOENV, timeout=timeout)
    if rc != 0 or not os.path.exists(exe):
        shutil.rmtree(d, ignore_errors=True)
        return None, out
    try:
        os.rename(d, final_d)
    except OSError:          # somebody else finished the same build first
        shutil.rmtree(d, ignore_errors=True)
    if not os.path.exists(final_exe):
        return None, out + "\nharness binary vanished after the build"
    exe = final_exe
    return exe, out

def run_scenario(exe, scen, seed, n, params=None, timeout=900, extra_env=None):
    """Run one harness scenario; returns (rc, path of record file, stdout)."""
    out = os.path.join(scratch(), "%s-%d-%d.rec" % (scen, seed, random.randrange(1 << 30)))
    env = dict(GOENV, VERIF_SCEN=scen, VERIF_SEED=str(seed), VERIF_N=str(n), VERIF_OUT=out,
               VERIF_PARAM=",".join("%s=%s" % kv for kv in (params or {}).items()))
    if extra_env:
        env.update(extra_env)
    rc, txt = sh([exe, "-test.run", "^TestVerif$", "-test.count=1", "-test.timeout", "%ds" % timeout], cwd=scratch(), env=env,
                 timeout=timeout + 30)
    return rc, out, txt

def run_sharded(exe, scen, seed, n, params, shards, timeout=900):
    """Run a scenario as `shards` parallel processes (each takes the slice shard/nshards of the sweep) and concatenate the
    record files."""
    if shards <= 1:
        return run_scenario(exe, scen, seed, n, params, timeout=timeout)
    from concurrent.futures import ThreadPoolExecutor
    def one(i):
        return run_scenario(exe, scen, seed, n, dict(params or {}, shard=i, nshards=shards), timeout=timeout)
    with ThreadPoolExecutor(max_workers=shards) as ex:
        res = list(ex.map(one, range(shards)))
    out = os.path.join(scratch(), "%s-%d-merged-%d.rec" % (scen, seed, random.randrange(1 << 30)))
    rc, txt = 0, ""
    stats = {}
    with open(out, "w") as w:
        for (r, rec, t) in res:
            if r != 0:
                rc = r
                txt += t
            if os.path.exists(rec):
                for line in open(rec):
                    if line.startswith("STAT "):
                        k = line.split()
                        stats[k[1]] = stats.get(k[1], 0) + int(k[2])
                    else:
                        w.write(line)
                os.remove(rec)
        for k, v in sorted(stats.items()):
            w.write("STAT %s %d\n" % (k, v))
    return rc, out, txt

def run_checker(recfile, timeout=900):
    rc, out = sh([checker_exe(), recfile], timeout=timeout)
    mism = [l for l in out.split("\n") if l.startswith("MISMATCH")]
    summ = {}
    for l in out.split("\n"):
        if l.startswith("SUMMARY"):
            kv = dict(p.split("=", 1) for p in l.split()[1:])
            name = kv.pop("model")
            summ[name] = {k: int(v) for k, v in kv.items()}
    return rc, mism, summ, out

def read_records(recfile):
    recs = []
    with open(recfile) as f:
        for line in f:
            line = line.strip()
            if line:
                recs.append(line)
    return recs

# ----------------------------------------------------------------------------------------------------------------
# known findings
# ----------------------------------------------------------------------------------------------------------------
def known_findings():
    p = os.path.join(VERIF, "known_findings.json")
    if not os.path.exists(p):
        return []
    return json.load(open(p)).get("findings", [])

def write_evidence(pid, ev):
    os.makedirs(EVID, exist_ok=True)
    p = os.path.join(EVID, pid + ".json")
    tmp = p + ".tmp"
    json.dump(ev, open(tmp, "w"), indent=1, sort_keys=True)
    os.replace(tmp, p)

def write_replay(pid, name, obj):
    os.makedirs(REPLAYS, exist_ok=True)
    p = os.path.join(REPLAYS, "%s-%s-%d.json" % (pid, name, os.getpid()))
    json.dump(obj, open(p, "w"), indent=1)
    return p
